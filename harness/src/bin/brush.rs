//! The brush binary, built from /repo's working tree with `--cfg brush_verif`.
fn main() {
    brush_shell::entry::run();
}
