----------------------------- MODULE MC_WordExp -----------------------------
(* Exhaustive evaluation of WordExp.tla.  A state is a partial environment choice <<ifs, dir, params, x>>
   (built one component per step so that TLC's workers share the leaves); at every complete choice the
   invariant evaluates Expand for every word of the family and prints one ROW per (word, environment).
   Fam = "c05": words = all sequences of <= NP pieces of Pool (grammar constraints in WordOK); x over XS5
   Fam = "c04": words = the unquoted / mixed forms W4; x = every string of <= VL characters over A4;
                QuotedIdentity and SplitKeepsQuoted are checked for every such value and environment.   *)
EXTENDS WordExp, Json

CONSTANTS Fam, NP, VL, Stride, Phase       \* c05 with NP = 3: only word triples whose index % Stride = Phase are evaluated

S(str) == str      \* (readability)
P(k, x, y) == [k |-> k, x |-> x, y |-> y]
LitP(t) == P("lit", t, <<>>)
Var(n) == P("var", n, <<>>)
Dq(y) == P("dq", <<>>, y)
At == P("at", <<>>, <<>>)
Star == P("star", <<>>, <<>>)

Pool == <<
  LitP(<<"a">>), LitP(<<"*">>), LitP(<<"?", "b">>), LitP(<<".", "*">>), LitP(<<"[", "a", "b", "]">>), LitP(<<"/", "q">>),
  P("sq", <<"a", " ", "b">>, <<>>), P("sq", <<"*">>, <<>>), P("sq", <<>>, <<>>), P("esc", "*", <<>>), P("esc", " ", <<>>),
  Dq(<<>>), Dq(<<Var("x")>>), Dq(<<LitP(<<" ">>), Var("x")>>), Dq(<<At>>), Dq(<<Star>>), Dq(<<P("arr", "a", <<>>)>>), Dq(<<P("arrs", "a", <<>>)>>),
  Dq(<<LitP(<<"p">>), At, LitP(<<"q">>)>>), Dq(<<P("cs", "x", <<>>)>>), Dq(<<P("arr", "z", <<>>)>>), Dq(<<LitP(<<"*">>)>>),
  Var("x"), Var("e"), Var("u"), Var("s"), Var("g"), At, Star, P("arr", "a", <<>>), P("arrs", "a", <<>>), P("arr", "z", <<>>),
  P("cs", "x", <<>>), P("ar", <<"1", "2">>, <<>>),
  P("def", "u", <<LitP(<<"a", " ", "*">>)>>), P("def", "u", <<Dq(<<LitP(<<"a", " ", "b">>)>>)>>), P("def", "x", <<LitP(<<"d">>)>>), P("def", "e", <<At>>),
  P("alt", "x", <<Var("s")>>), P("alt", "s", <<Dq(<<Var("x")>>), LitP(<<" ">>), P("sq", <<"c">>, <<>>)>>), P("def", "u", <<>>),
  P("tilde", <<>>, <<>>),
  P("brace", <<>>, <<<<LitP(<<"a">>)>>, <<LitP(<<"b">>)>>>>), P("brace", <<>>, <<<<Var("x")>>, <<P("sq", <<"c", " ", "d">>, <<>>)>>>>),
  P("brace", <<"seq">>, <<<<LitP(<<"1">>)>>, <<LitP(<<"2">>)>>, <<LitP(<<"3">>)>>>>), P("brace", <<>>, <<<<>>, <<LitP(<<"*">>)>>>>) >>
NPool == Len(Pool)

\* grammar constraints: a tilde only starts a word and is followed by nothing or by /...; at most one brace piece;
\* a piece that ends in a name ($x) may be followed by anything (the renderer writes ${x})
WordOK(ix) == /\ \A i \in 2..Len(ix) : Pool[ix[i]].k # "tilde"
              /\ (Len(ix) > 1 /\ Pool[ix[1]].k = "tilde" => Pool[ix[2]] = LitP(<<"/", "q">>))
              /\ Cardinality({i \in 1..Len(ix) : Pool[ix[i]].k = "brace"}) <= 1
Words5 == {ix \in UNION {[1..n -> 1..NPool] : n \in 1..NP} :
             /\ WordOK(ix)
             /\ (Len(ix) = 3 => (ix[1] * 7 + ix[2] * 3 + ix[3]) % Stride = Phase)}
RECURSIVE ToSeq(_)
ToSeq(Sx) == IF Sx = {} THEN <<>> ELSE LET m == CHOOSE v \in Sx : TRUE IN <<m>> \o ToSeq(Sx \ {m})
Words5Seq == ToSeq(Words5)
WordOf(ix) == [i \in 1..Len(ix) |-> Pool[ix[i]]]

XS5 == << <<>>, <<"a", " ", "b">>, <<" ", "a", " ", " ">>, <<"*">>, <<"a", "NL", "b", "NL">>, <<"b">> >>
A4 == <<"a", " ", "NL", ":", "*", "?", "\\", "'", "{", "~">>
A4Set == {A4[i] : i \in 1..Len(A4)}
Seqs(Sx, n) == UNION {[1..m -> Sx] : m \in 0..n}
XS4 == Seqs(A4Set, VL)
\* c04 word forms: x alone; x glued to literal and quoted text; x inside a default; x in a brace
W4 == << <<Var("x")>>, <<LitP(<<"a">>), Var("x"), Dq(<<Var("x")>>)>>, <<P("def", "u", <<Var("x")>>)>>, <<Var("x"), LitP(<<"*">>)>>,
         <<P("cs", "x", <<>>)>>, <<At>>, <<P("arr", "a", <<>>)>> >>

IfsTab == << <<"UNSET">>, <<" ", "TAB", "NL">>, <<" ">>, <<"NL">>, <<>>, <<":">>, <<" ", ":">>, <<"a">> >>
NIfs == IF Fam = "c05" THEN 5 ELSE 8                    \* C05 is stated for default / whitespace IFS
DirTab == << <<>>, << <<"a">>, <<"a", "b">>, <<"b">>, <<".", "h">>, <<"a", " ", "b">> >> >>
ParamTab(x) == << <<>>, <<x>>, <<x, <<>>>>, << <<"a", " ", "b">>, x, <<"c">> >> >>
EnvOfD(c, x, D) ==
  [dev |-> D, vars |-> [n \in {"x", "e", "u", "s", "g"} |-> CASE n = "x" -> x [] n = "e" -> <<>> [] n = "u" -> <<"UNSET">>
                                                  [] n = "s" -> <<" ", "a", " ", " ", "b", " ">> [] n = "g" -> <<"a", "*">>],
   arrs |-> [n \in {"a", "z"} |-> IF n = "a" THEN <<x, <<"b", " ", "c">>>> ELSE <<>>],
   params |-> ParamTab(x)[c[3]], ifs |-> IfsTab[c[1]], home |-> <<"/", "h", " ", "*">>, dir |-> DirTab[c[2]]]
EnvOf(c, x) == EnvOfD(c, x, {})
DEVS == {"LiteralSplit", "NoEmptyFields", "BraceJoin", "StarJoinSpace"}

VARIABLE c
Init == c = <<>>
Next == /\ Len(c) < 4
        /\ \E v \in 1..(CASE Len(c) = 0 -> NIfs [] Len(c) = 1 -> 2 [] Len(c) = 2 -> 4 [] Len(c) = 3 -> (IF Fam = "c05" THEN Len(XS5) ELSE 1)) : c' = Append(c, v)

PatsDefined(w, env) ==      \* every field that is used as a pattern has a defined meaning (Glob.WellDefined)
  LET fs == Keep(SplitAll(WordFields(w, env, FALSE), IfsSet(env), env.dev)) IN \A i \in 1..Len(fs) : HasGlob(fs[i]) => WellDefined(PatOf(fs[i]), FALSE)
Asg(w, env) == IF \A j \in 1..Len(w) : w[j].k \notin {"at", "star", "arr", "arrs", "brace", "tilde"} THEN AssignValue(w, env) ELSE <<"-">>
Res(w, env) == <<Expand(w, env), Asg(w, env)>>
RowsFor(words, x, tag) ==
  LET env == EnvOf(c, x)  envD == EnvOfD(c, x, DEVS) IN
  \A i \in 1..Len(words) :
     LET ws == BraceWords(words[i])
         ideal == Res(words[i], env)
         built == Res(words[i], envD)
         attr == IF built = ideal THEN {} ELSE {d \in DEVS : Res(words[i], EnvOfD(c, x, {d})) # ideal} IN
     PrintT(<<"ROW", ToJson([w |-> tag[i], c |-> c, x |-> x, def |-> \A j \in 1..Len(ws) : PatsDefined(ws[j], env), out |-> ideal[1], asg |-> ideal[2],
                             bout |-> IF built = ideal THEN <<"=">> ELSE built[1], basg |-> IF built = ideal THEN <<"=">> ELSE built[2], attr |-> attr])>>)
Emit ==
  Len(c) < 4 \/
  IF Fam = "c05"
  THEN LET ws == Words5Seq IN RowsFor([i \in 1..Len(ws) |-> WordOf(ws[i])], XS5[c[4]], ws)
  ELSE \A x \in XS4 :
         /\ (QuotedIdentity(x, EnvOf(c, x)) \/ Print(<<"INSANE", "QuotedIdentity", x, c>>, FALSE))
         /\ (\A i \in 1..Len(W4) : SplitKeepsQuoted(W4[i], EnvOf(c, x)) \/ Print(<<"INSANE", "SplitKeepsQuoted", x, c, i>>, FALSE))
         /\ RowsFor(W4, x, [i \in 1..Len(W4) |-> <<i>>])
PoolOut == PrintT(<<"POOL", ToJson([pool |-> Pool, w4 |-> W4, ifs |-> IfsTab, dirs |-> DirTab])>>)
ASSUME PoolOut
=============================================================================
