------------------------------ MODULE ParamOps ------------------------------
(* Parameter-expansion operators (C06): brush-core/src/expansion.rs (expand_parameter_expr ...),
   patterns.rs (remove_*_matching_*, replace), variables.rs - the results bash documents.

   A value is a sequence of characters (Glob's alphabet); a binding is "unset", "null" or "set".
   Apply(v, b, op) = [st, val, assign]   st = "ok" | "err"; val = the expansion; assign = value stored by := / =
   Operators are records [k, x, y, p, r]:
     k = "len"                              ${#v}
         "sub1" x=off                       ${v:off}           "sub2" x=off y=len   ${v:off:len}
         "rp" / "rP" / "rs" / "rS"  p       ${v#p} ${v##p} ${v%p} ${v%%p}
         "rep1" / "repA" / "repP" / "repS"  p r   ${v/p/r} ${v//p/r} ${v/#p/r} ${v/%p/r}
         "up1" / "upA" / "lo1" / "loA"      ${v^} ${v^^} ${v,} ${v,,}
         "dflt" / "dfltC" / "asg" / "asgC" / "alt" / "altC" / "err" / "errC"   r = word
                                            ${v-w} ${v:-w} ${v=w} ${v:=w} ${v+w} ${v:+w} ${v?w} ${v:?w}
   Prefix / suffix removal are stated declaratively (C06's bash-independent clause): the result is v minus a
   prefix that matches p and is the shortest (longest) such prefix, the empty one included.                  *)
EXTENDS Glob, Integers

Upper(c) == CASE c = "a" -> "A" [] c = "b" -> "B" [] c = "c" -> "C" [] c = "U" -> "V" [] OTHER -> c
Lower(c) == CASE c = "A" -> "a" [] c = "B" -> "b" [] c = "C" -> "c" [] c = "V" -> "U" [] OTHER -> c

MatchSub(p, v, i, j) == Match(p, SubSeq(v, i, j), TRUE, FALSE)       \* does p match v[i..j] (whole); extglob tokens, when present, are groups
Min(S) == CHOOSE x \in S : \A y \in S : x <= y
Max(S) == CHOOSE x \in S : \A y \in S : x >= y

RemPrefix(v, p, longest) ==
  LET K == {k \in 0..Len(v) : MatchSub(p, v, 1, k)} IN
  IF K = {} THEN v ELSE SubSeq(v, (IF longest THEN Max(K) ELSE Min(K)) + 1, Len(v))
RemSuffix(v, p, longest) ==
  LET K == {k \in 0..Len(v) : MatchSub(p, v, Len(v) - k + 1, Len(v))} IN
  IF K = {} THEN v ELSE SubSeq(v, 1, Len(v) - (IF longest THEN Max(K) ELSE Min(K)))

\* leftmost-longest search from position i: the first start >= i with some match, the longest end there
NextMatch(v, p, i) ==
  LET S == {s \in i..(Len(v) + 1) : \E e \in (s - 1)..Len(v) : MatchSub(p, v, s, e)} IN
  IF S = {} THEN <<0, 0>>
  ELSE LET s == Min(S) IN <<s, Max({e \in (s - 1)..Len(v) : MatchSub(p, v, s, e)})>>

RECURSIVE ReplAll(_, _, _, _)
ReplAll(v, p, r, i) ==          \* replace every non-overlapping leftmost-longest match from position i on
  IF i > Len(v) THEN <<>>
  ELSE LET m == NextMatch(v, p, i) IN
       IF m[1] = 0 THEN SubSeq(v, i, Len(v))
       ELSE IF m[2] < m[1]     \* empty match: bash copies one character and moves on
            THEN (IF m[1] <= Len(v) THEN SubSeq(v, i, m[1]) \o ReplAll(v, p, r, m[1] + 1) ELSE SubSeq(v, i, Len(v)))
            ELSE SubSeq(v, i, m[1] - 1) \o r \o ReplAll(v, p, r, m[2] + 1)

Replace(v, p, r, mode) ==
  IF p = <<>> THEN v                   \* an empty pattern is never replaced
  ELSE IF v = <<>> THEN (IF MatchSub(p, v, 1, 0) THEN r ELSE v)     \* the empty value is replaced iff p matches it
  ELSE CASE mode = "rep1" -> LET m == NextMatch(v, p, 1) IN
                             IF m[1] = 0 \/ m[2] < m[1] THEN v
                             ELSE SubSeq(v, 1, m[1] - 1) \o r \o SubSeq(v, m[2] + 1, Len(v))
         [] mode = "repA" -> ReplAll(v, p, r, 1)
         [] mode = "repP" -> LET K == {k \in 1..Len(v) : MatchSub(p, v, 1, k)} IN
                             IF K = {} THEN v ELSE r \o SubSeq(v, Max(K) + 1, Len(v))
         [] mode = "repS" -> LET K == {k \in 1..Len(v) : MatchSub(p, v, Len(v) - k + 1, Len(v))} IN
                             IF K = {} THEN v ELSE SubSeq(v, 1, Len(v) - Max(K)) \o r

Substr(v, off, hasLen, len) ==
  LET n == Len(v)
      s == IF off < 0 THEN n + off ELSE off              \* 0-based start
  IN IF s < 0 \/ s > n THEN [st |-> "ok", val |-> <<>>]
     ELSE IF ~hasLen THEN [st |-> "ok", val |-> SubSeq(v, s + 1, n)]
     ELSE IF len >= 0 THEN [st |-> "ok", val |-> SubSeq(v, s + 1, IF s + len > n THEN n ELSE s + len)]
     ELSE LET e == n + len IN                              \* negative length: an end offset from the end
          IF e < s THEN [st |-> "err", val |-> <<>>] ELSE [st |-> "ok", val |-> SubSeq(v, s + 1, e)]

MapSeq(v, f(_)) == [i \in 1..Len(v) |-> f(v[i])]
Digits(n) == IF n < 10 THEN <<n>> ELSE <<n \div 10, n % 10>>

R(st, val, asg) == [st |-> st, val |-> val, asg |-> asg]
NoAsg == <<"-">>
Apply(v, b, op) ==
  LET isSet == b # "unset"
      nonNull == b = "set" /\ v # <<>>
      val == IF b = "set" THEN v ELSE <<>> IN
  CASE op.k = "len"  -> R("ok", <<"N", Len(val)>>, NoAsg)
    [] op.k = "sub1" -> LET s == Substr(val, op.x, FALSE, 0) IN R(s.st, s.val, NoAsg)
    [] op.k = "sub2" -> LET s == Substr(val, op.x, TRUE, op.y) IN R(s.st, s.val, NoAsg)
    [] op.k = "rp"   -> R("ok", RemPrefix(val, op.p, FALSE), NoAsg)
    [] op.k = "rP"   -> R("ok", RemPrefix(val, op.p, TRUE), NoAsg)
    [] op.k = "rs"   -> R("ok", RemSuffix(val, op.p, FALSE), NoAsg)
    [] op.k = "rS"   -> R("ok", RemSuffix(val, op.p, TRUE), NoAsg)
    [] op.k \in {"rep1", "repA", "repP", "repS"} -> R("ok", Replace(val, op.p, op.r, op.k), NoAsg)
    [] op.k = "up1"  -> R("ok", IF val = <<>> THEN val ELSE <<Upper(val[1])>> \o Tail(val), NoAsg)
    [] op.k = "upA"  -> R("ok", MapSeq(val, Upper), NoAsg)
    [] op.k = "lo1"  -> R("ok", IF val = <<>> THEN val ELSE <<Lower(val[1])>> \o Tail(val), NoAsg)
    [] op.k = "loA"  -> R("ok", MapSeq(val, Lower), NoAsg)
    [] op.k = "dflt"  -> R("ok", IF isSet THEN val ELSE op.r, NoAsg)
    [] op.k = "dfltC" -> R("ok", IF nonNull THEN val ELSE op.r, NoAsg)
    [] op.k = "asg"   -> IF isSet THEN R("ok", val, NoAsg) ELSE R("ok", op.r, op.r)
    [] op.k = "asgC"  -> IF nonNull THEN R("ok", val, NoAsg) ELSE R("ok", op.r, op.r)
    [] op.k = "alt"   -> R("ok", IF isSet THEN op.r ELSE <<>>, NoAsg)
    [] op.k = "altC"  -> R("ok", IF nonNull THEN op.r ELSE <<>>, NoAsg)
    [] op.k = "err"   -> IF isSet THEN R("ok", val, NoAsg) ELSE R("err", <<>>, NoAsg)
    [] op.k = "errC"  -> IF nonNull THEN R("ok", val, NoAsg) ELSE R("err", <<>>, NoAsg)

\* ---------------- the bash-independent clause and algebraic sanity (checked over the enumerated domain)
RemovalSound(v, p) ==
  LET a == RemPrefix(v, p, FALSE)  bL == RemPrefix(v, p, TRUE)  c == RemSuffix(v, p, FALSE)  dL == RemSuffix(v, p, TRUE) IN
  /\ \E k \in 0..Len(v) : a = SubSeq(v, k + 1, Len(v)) /\ (a # v => MatchSub(p, v, 1, k))          \* the rest of v after a matching prefix
  /\ Len(bL) <= Len(a)                                                                             \* longest removes at least as much
  /\ \E k \in 0..Len(v) : c = SubSeq(v, 1, Len(v) - k)
  /\ Len(dL) <= Len(c)
  /\ (MatchSub(p, v, 1, 0) => a = v)                                                               \* the empty prefix is tried first
SubstrSound(v, o) == (o >= 0 /\ o <= Len(v)) => Substr(v, 0, TRUE, o).val \o Substr(v, o, FALSE, 0).val = v
=============================================================================
