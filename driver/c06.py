"""C06 - parameter-expansion operators compute bash's result for every value and operand (spec/ParamOps.tla)."""
from .common import *
from .c08 import text, ansic, CH

PROP = "C06"
CH.update({"V": "É"})
FAMS = ["sub", "rem", "remx", "rep", "case", "dflt"]


def model_rows(fam, vl, nch=8):
    d = tempfile.mkdtemp(prefix="pops-", dir=scratch())

    def one(k):
        cfg = os.path.join(d, "c%s%d.cfg" % (fam, k))
        with open(cfg, "w") as f:
            f.write('CONSTANTS\n  Fam = "%s"\n  VL = %d\n  Chunk = %d\n  NChunks = %d\nINIT Init\nNEXT Next\nINVARIANT Emit\nCHECK_DEADLOCK FALSE\n' % (fam, vl, k, nch))
        r = run_tlc("MC_ParamOps", cfg, workers=1, want_lines=("ROW", "INSANE"), timeout=3000, xmx="3g")
        if not r["ok"] or r["lines"]["INSANE"]:
            raise ToolError("MC_ParamOps failed (family %s chunk %d): %s %s\n%s" % (fam, k, r["violation"], r["lines"]["INSANE"][:2], r.get("full", "")[-1500:]))
        return r["lines"]["ROW"]
    rows = []
    for part in pmap(one, range(nch), threads=min(nch, NCPU)):
        rows += part
    shutil.rmtree(d, ignore_errors=True)
    return rows


def expr(op):
    k, p, r = op["k"], text(op["p"]), text(op["r"])
    return {
        "len": "${#v}", "sub1": "${v:%s}" % fmt_off(op["x"]), "sub2": "${v:%s:%s}" % (fmt_off(op["x"]), op["y"]),
        "rp": "${v#%s}" % qpat(p), "rP": "${v##%s}" % qpat(p), "rs": "${v%%%s}" % qpat(p), "rS": "${v%%%%%s}" % qpat(p),
        "rep1": "${v/%s/%s}" % (qpat(p), r), "repA": "${v//%s/%s}" % (qpat(p), r), "repP": "${v/#%s/%s}" % (qpat(p), r), "repS": "${v/%%%s/%s}" % (qpat(p), r),
        "up1": "${v^}", "upA": "${v^^}", "lo1": "${v,}", "loA": "${v,,}",
        "dflt": "${v-%s}" % r, "dfltC": "${v:-%s}" % r, "asg": "${v=%s}" % r, "asgC": "${v:=%s}" % r,
        "alt": "${v+%s}" % r, "altC": "${v:+%s}" % r, "err": "${v?%s}" % r, "errC": "${v:?%s}" % r,
    }[k]


def fmt_off(x):
    return (" %d" % x) if x < 0 else str(x)


def qpat(p):
    return p.replace(" ", "\\ ")          # a blank in a pattern operand must be escaped in source text


def build_script(group):
    """group: rows sharing (v, b). Each row prints  R<idx> NUL <fields...> NUL"""
    v, b = group[0]["v"], group[0]["b"]
    L = ["shopt -s extglob"]
    setup = "v=%s" % ansic(text(v)) if b == "set" else ("v=" if b == "null" else "unset v")
    L.append(setup)
    for i, row in enumerate(group):
        e = expr(row["op"])
        if row["op"]["k"] == "sub2" and row["op"]["y"] < 0:
            # "substring expression < 0" aborts the whole command in bash: isolate it
            L.append("( printf '%%s\\0' R%d \"%s\" ) 2>/dev/null || printf '%%s\\0' R%d ERR" % (i, e, i))
        elif row["op"]["k"] in ("asg", "asgC", "err", "errC"):
            L.append("( %s; printf '%%s\\0' R%d \"%s\" \"A${v-<unset>}\" ) 2>/dev/null || printf '%%s\\0' R%d ERR" % (setup, i, e, i))
        else:
            L.append("printf '%%s\\0' R%d \"%s\" 2>/dev/null || printf '%%s\\0' R%d ERR" % (i, e, i))
    return "\n".join(L) + "\n"


def parse(out):
    fields = out.split("\0")
    res, i = {}, 0
    while i < len(fields):
        m = re.match(r"^R(\d+)$", fields[i])
        if m and i + 1 < len(fields):
            idx = int(m.group(1))
            if fields[i + 1] == "ERR":
                res[idx] = ("err", None, None)
                i += 2
            elif i + 2 < len(fields) and fields[i + 2].startswith("A") and not re.match(r"^R\d+$", fields[i + 2]):
                res[idx] = ("ok", fields[i + 1], fields[i + 2][1:])
                i += 3
            else:
                res[idx] = ("ok", fields[i + 1], None)
                i += 2
        else:
            i += 1
    return res


def expected(row):
    if row["st"] == "err":
        return ("err", None, None)
    val = row["val"]
    if val and val[0] == "N":
        s = str(val[1])
    else:
        s = text(val)
    asg = None
    if row["op"]["k"] in ("asg", "asgC", "err", "errC"):
        if row["asg"] != ["-"]:
            asg = text(row["asg"])
        else:
            asg = text(row["v"]) if row["b"] == "set" else ("" if row["b"] == "null" else "<unset>")
    return ("ok", s, asg)


def run(tier):
    v = Verdict(PROP, tier, "model_checking")
    build_harness()
    vl = 3 if tier == "quick" else 4
    allrows = []
    for fam in FAMS:
        rows = model_rows(fam, vl if fam not in ("rep",) or tier == "quick" else 3)
        allrows += rows
    groups = {}
    for row in allrows:
        groups.setdefault((json.dumps(row["v"]), row["b"], row["op"]["k"][:3]), []).append(row)
    glist = list(groups.values())
    # merge small groups per value to cut process count
    byval = {}
    for g in glist:
        byval.setdefault((json.dumps(g[0]["v"]), g[0]["b"]), []).extend(g)
    jobs = list(byval.values())

    def one(group):
        scr = build_script(group)
        b = run_script("bash", scr, front="file", timeout=120)
        r = run_script("brush", scr, front="file", timeout=180)
        return group, scr, b, r
    evals = 0
    nontrivial = 0
    for group, scr, b, r in pmap(one, jobs):
        if crashed(r) or r["timeout"]:
            v.violation("crash:" + text(group[0]["v"]), {"kind": "crash or hang", "script": scr[:1500], "stderr": r["err"][-400:]})
            continue
        pb, pr = parse(b["out"]), parse(r["out"])
        for i, row in enumerate(group):
            evals += 1
            exp = expected(row)
            if exp[1] != text(row["v"]) or row["st"] == "err":
                nontrivial += 1
            if pb.get(i) != exp:
                v.audit_miss({"value": text(row["v"]), "binding": row["b"], "expr": expr(row["op"]), "model": exp, "bash": pb.get(i)})
                continue
            if pr.get(i) != exp:
                v.violation("%s|%s|%s" % (text(row["v"]), row["b"], expr(row["op"])),
                            {"kind": "operator result differs", "value": text(row["v"]), "binding": row["b"], "expr": expr(row["op"]), "expected": exp, "observed": pr.get(i), "op": row["op"]})
    from . import c06b
    evals_b, rows_b = c06b.run_part(v, tier)
    evals += evals_b
    nontrivial += evals_b
    from . import c06c
    evals_c, rows_c = c06c.run_part(v, tier)
    evals += evals_c
    nontrivial += evals_c
    rows_b += rows_c
    if v.audit_disagreements > 0.02 * max(1, evals):
        raise ToolError("model/bash disagreement rate too high: %d of %d" % (v.audit_disagreements, evals))
    return v.finish({
        "states": len(allrows) + rows_b, "transitions": len(allrows) + rows_b, "traces_validated_against_impl": evals, "array_rows": rows_b,
        "evaluations": evals, "distinct_nontrivial": nontrivial,
        "rule": "every value of <= %d characters over {a b SP NL * e-acute} x every operator instance: ${#v}; ${v:o} ${v:o:l} with o, l in {-4,-2,-1,0,1,2,4}; "
                "${v#p} ${v##p} ${v%%p} ${v%%%%p} and ${v/p/r} ${v//p/r} ${v/#p/r} ${v/%%p/r} with every pattern of <= 2 tokens over {a b * ? SP}; ${v^} ${v^^} ${v,} ${v,,}; "
                "the eight default/assign/alternative/error operators x {unset, null, set}; states = (value, operator) pairs evaluated by ParamOps.tla inside TLC, which also checks "
                "the declarative shortest/longest clause (RemovalSound) and SubstrSound on every value; non-trivial = the result differs from the value or is an error; "
                "second part (MC_ParamArr.tla): every array of <= 3 elements over 5 element values x slices ${a[@]:o:l} / ${@:o:l} with o in {-4..4}, ${#a[@]}, ${!a[@]}, ${#a[i]}, nine scalar operators mapped over the elements; "
                "${!v} with its :- and :+ forms for v naming a set / empty / unset variable or unset itself; ${v@U} ${v@u} ${v@L}; "
                "third part (MC_ParamXform.tla): ${v@Q} (scalar, array, $@, $* forms, and reading the quoted text back) for every value of <= 3 characters over {a SP * ' \\ NL TAB e-acute ^A}; ${v@E} for every text of <= 4 "
                "characters over {\\ x n 0 1 4 a ' z} (results with bytes >= 0x80 excluded); ${v@a} ${v@A} and the stored value for the 24 attribute sets over {i r x l|u} x {4 values, declared without value, unset}; "
                "associative arrays of <= 2 of 3 keys (k, 'k 2', *) x count / keys / values / mapped operator / element with - :- + and length; 47 expansion forms under set -u with 0 and 1 positional parameters; "
                "${v:o} ${v:o:l} with 12 offset and 6 length arithmetic expressions" % vl,
        "exhaustive": True,
        "samples": [{"value": text(r0["v"]), "expr": expr(r0["op"]), "expected": expected(r0)} for r0 in allrows[:: max(1, len(allrows) // 3)][:3]],
    }, assumptions=["bash 5.2.15 is the reference; a (value, operator) pair counts only if bash reproduces the model's result",
                    "values are valid UTF-8 without NUL; locale C.UTF-8 (lengths and offsets count characters)"])


def replay(path):
    with open(path) as f:
        c = json.load(f)
    build_harness()
    row = {"v": [k for k in c["value"]], "b": c["binding"], "op": c["op"]}
    # the value is rebuilt from its text
    setup = "v=%s" % ansic(c["value"]) if c["binding"] == "set" else ("v=" if c["binding"] == "null" else "unset v")
    scr = "%s\nprintf '%%s\\0' R0 \"%s\" 2>/dev/null || printf '%%s\\0' R0 ERR\n" % (setup, c["expr"])
    r = run_script("brush", scr, front="file")
    got = parse(r["out"]).get(0)
    print("expected", c["expected"], "observed", got)
    if list(got or ()) [:2] != list(c["expected"])[:2]:
        print("VIOLATION property=%s replay=%s" % (PROP, path))
        return 1
    return 0
