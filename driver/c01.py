"""C01 - no input crashes the shell: parse, expand and run always end in a status (spec/Lexer.tla).

TLC walks the lexical mode automaton of the reader (Lexer.tla) and emits every text of <= N atoms it can reach -
each one an input cut at that point - together with its minimal completion. Every text (cut and completed) goes
through the in-process parser entry points under catch_unwind (tokenizer, program parser, word parser, arithmetic
parser, pattern translation, prompt parser); a deterministic sample (quick) / all (thorough) are executed by the
real shell with -c and over stdin. Nesting families to depth 64 and boundary literals in every numeric position
complete the corpus.  Oracle: the run ends with an exit status - no panic, abort, signal or hang - and a text the
automaton classifies as incomplete gets a non-zero status and a diagnostic under -c."""
import random
from .common import *

PROP = "C01"
FRAGMENTS = ["echo ", "a", " ", "'", '"', "$", "$(", ")", "${", "}", "$((", "))", "`", "\\", "\n", ";", "&&", "||", "|", "&", "<<E\n", "E\n", "<", ">", ">>", "2>&1",
             "if ", "then ", "fi", "for i in ", "do ", "done", "case x in ", "esac", "{ ", "(", "é", "🚀", "#", "*", "?", "[", "]", "~", "{a,b}", "{1..3}", "x=", "!",
             "[[ ", " ]]", "function f ", "() ", "$'", "\\x", "-", "=", "0", "9223372036854775807", "$@", "${x:-", "${#x}", "<(", "time ", "coproc ", "select "]
BOUNDARY = ["0", "1", "-1", "2147483648", "4294967295", "18446744073709551615", "9223372036854775807", "9223372036854775808", "-9223372036854775808", "99999999999999999999", "08", "0x", "64#_", "65#1", ""]
TEMPLATES = ["echo {1..%s}", "echo {%s..3}", "echo {a..z..%s}", "echo {1..5..%s}", "echo ~%s", "echo ~-%s", "echo ~+%s", "echo x %s>/dev/null", "exec %s>&1", "x=abcdef; echo ${x:%s}",
             "x=abcdef; echo ${x:1:%s}", "echo $((%s))", "echo $((1 << %s))", "echo $((2 ** %s))", "echo $((1 / %s))", "a=(1 2 3); echo ${a[%s]}", "a=(1 2 3); a[%s]=x", "set -- a b; echo ${%s}",
             "shift %s", "break %s", "return %s", "exit %s", "ulimit -n %s", "umask %s", "printf '%%%sd' 1", "printf '%%.%sf' 1", "read -n %s x </dev/null", "history %s", "declare -i x=%s; echo $x",
             "x=é; echo ${x:%s}", "declare -c x=éa%s; echo $x", "echo ${x:-%s}", "wait %%%s", "fc -l %s", "echo $'\\x%s'", "echo $'\\u%s'", "printf '\\x%s'",
             "cd -%s", "pushd +%s", "dirs -%s", "trap : %s", "let x=%s", "(( x = %s ))", "[[ 1 -lt %s ]]", "[ 1 -lt %s ]", "test -t %s", "echo ${!x%s}", "echo ${x^^%s}", "getopts %s o", "mapfile -n %s a </dev/null",
             "mapfile -s %s a </dev/null", "mapfile -O %s a </dev/null", "read -t %s x </dev/null", "read -u %s x", "echo ${#%s}", "for ((i=%s; i<1 && i>-3; i++)); do :; done", "echo {%s,}", "hash -p /bin/ls %s",
             "printf 'a\\nb\\n' | { mapfile -O %s a; echo ${#a[@]}; }", "a=([%s]=x y); echo ${#a[@]}", "a=(x); a+=([%s]=y z); echo ${!a[@]}", "declare -A m=([%s]=x); echo ${m[%s]}".replace("%s]}", "k]}"),
             "printf '%%s\\c%%s' %s y z", "printf 'a\\c%%s' %s y", "printf '%%b' 'a\\c' %s", "echo -e 'a\\c' %s", "printf '%%*d' %s 1", "printf '%%.*s' %s abc", "printf '%%(%%Y)T' %s", 
             "kill -l %s", "exit %s 1", "echo ${x:%s:%s}".replace("%s:%s", "%s:1"), "read -N %s x <<< abc", "read -d '' -n %s x <<< abc", "printf -v 'a[%s]' x; echo ${#a[@]}", "unset 'a[%s]'", "a=(1 2); echo ${a[@]:%s}",
             "set -- a b c; echo ${@:%s}", "echo ${*:%s:2}", "x=abc; echo ${x: %s: %s}".replace(": %s}", ": 1}"), "type -a %s", "enable -n %s", "caller %s", "bind -r %s", "suspend %s", "times %s", "getopts ab o -%s"]
# execution modes x small bodies that nest (subshell, substitution, function, eval, source, pipeline ...): tracing, verbose echo, option sets
MODES = ["PS4='→ '; set -x", "PS4='🚀$(echo é) '; set -x", "PS4=; set -x", "PS4='é'; set -x", "unset PS4; set -x", "PS4='$( ( echo + ) ) '; set -x", "PS4='${nope?} '; set -x", "PS4='\\w \\$ é'; set -x", "set -v",
         "set -o posix", "set -euo pipefail", "shopt -s extglob nullglob dotglob", "set -f; IFS=", "set -a", "set -T; trap ': $BASH_COMMAND' DEBUG", "trap 'echo é' ERR; set -E", "set -o noclobber", "set -m", "set -k", "set -B; set -H",
         "shopt -s lastpipe nocasematch nocaseglob", "shopt -s failglob", "LC_ALL=C", "IFS=é", "set -- é 🚀; IFS=🚀", "trap 'echo é' EXIT RETURN", "exec 2>&1; set -xv"]
BODIES = ["( echo é )", "echo $(echo $(echo é))", "f() { ( echo \"$1\" ); }; f é", "eval 'eval \"echo é\"'", ". /dev/stdin <<< 'echo é'", "echo é | cat | { read x; echo $x; }",
          "for i in é 🚀; do case $i in é) echo $(( 1 + 1 ));; esac; done", "x=é; echo ${x@Q} ${x^^} ${#x} \"$*\"", "cat <<E\n$(echo é)\nE", "[[ é == ? ]] && echo 1", "a=(é 🚀); echo ${a[@]:1}", "coproc { echo é; }; wait",
          "echo é > >(cat)", "false || echo é; ! true; echo $?", "é=1 2>/dev/null; é() { :; }; é", "while read -r l; do echo \"$l\"; done < <(printf 'é\\n🚀\\n')", "select x in é; do echo $x; break; done <<< 1", "time ( : )", "x=$(<\"/dev/null\"); echo \"${x:-é}\""]
HERE_TAGS = ["$(", "$( ", "`", "${", "$((", "'", '"', "\\", "E", "''", "<", "&", "(", ")", "$x", "\n", "", "é", "#", "E$(", "\"E\"F", "\\E"]
HERE_TAILS = ["", " ", "  ", "\n", " x\n", "\nE\n", "\nx\nE", "\n\n", " <<F\nE\nF\n", ")\nE\n"]
PROMPT_DATE = ["%Q", "%", "%%", "%Ez", "%5", "%:::z", "%-", "%_Y", "%^a", "%#Z", "%+", "%s", "%N", "%f", "%.3f", "%E", "%O", "é%", "%é", "", "%Y-%m-%d %H:%M:%S %Z %z %j %U %e %k %l %p %P %c %x %X %G %g %V %u %w %C %y %D %F %T %R %r %n %t"]
PROMPT_ESC = ["\\a\\d\\e\\h\\H\\j\\l\\n\\r\\s\\t\\T\\@\\A\\u\\v\\V\\w\\W\\!\\#\\$\\\\\\[\\]", "\\777", "\\0", "\\08", "\\400", "\\1", "\\", "\\D{", "\\D", "\\D{}", "\\[\\e[0m\\]", "\\x", "\\é", "$(echo \\w)", "${x@P}", "\\w" * 200]
ALIASES = ["shopt -s expand_aliases\nalias e=''\ne\necho after $?\n", "shopt -s expand_aliases\nalias e=' '\ne x\necho after $?\n", "shopt -s expand_aliases\nalias e='e'\ne\necho after $?\n",
           "shopt -s expand_aliases\nalias a=b b=a\na\necho after $?\n", "shopt -s expand_aliases\nalias e='echo '\nalias f=''\ne f\necho after $?\n", "shopt -s expand_aliases\nalias e='('\ne\necho after $?\n",
           "shopt -s expand_aliases\nalias e='x=1'\ne\necho after $? $x\n", "shopt -s expand_aliases\nalias e='\\'\ne\necho after $?\n", "shopt -s expand_aliases\nalias e=\"'\"\ne\necho after $?\n"]
WORD_NEST = [('${a:-"', '"}', "y"), ("${a:-", "}", "y"), ('"${a:+', '}"', "y"), ("${a%", "}", "y"), ("${a/", "/z}", "y"), ('${a:-"$(echo "', '")"}', "y"), ("$((1+", "))", "1"), ("$(echo ", ")", "y"),
             ("${a[", "]}", "0"), ("${a:", "}", "0"), ('"$[', ']"', "1"), ("@(", ")", "y"), ('"`echo ', '`"', "y")]
NEST = [("(", ")", " :"), ("{ ", "; }", ":"), ("$(", ")", "echo x"), ("${x:-", "}", "y"), ("$((", "))", "1"), ("`", "`", None), ('"$(', ')"', "echo x"), ("[[ ! ", " ]]", "a"),
        ("if :; then ", "; fi", ":"), ("case x in x) ", ";; esac", ":"), ("while false; do ", "; done", ":"), ("f() { ", "; }", ":"), ("eval '", "'", None), ("! ", "", ":"), ("( ( ", " ) )", ":")]


def model_texts(cfg):
    r = run_tlc("MC_Lexer", cfg, workers=min(8, NCPU), want_lines=("TEXT", "ATOMS"), timeout=3000, xmx="8g")
    if not r["ok"]:
        raise ToolError("Lexer.tla failed: %s" % r["violation"])
    sp = {a["n"]: a["s"] for a in r["lines"]["ATOMS"][0]}
    out = []
    for t in r["lines"]["TEXT"]:
        cut = "".join(sp[n] for n in t["t"])
        done = cut + "".join(sp[n] for n in t["done"])
        out.append({"cut": cut, "open": t["open"], "done": done})
    return out, r["states"], r["distinct"]


def nest_family():
    out = []
    for op, cl, inner in NEST:
        for k in (1, 2, 8, 32, 64):
            if op == "`" or inner is None:
                depth = min(k, 5)
                s = "echo x"
                for d in range(depth):
                    if op == "`":
                        bs = "\\" * (2 ** d - 1)           # nested backquotes are escaped from the inside out
                        s = "echo " + bs + "`" + s + bs + "`"
                    else:
                        s = "eval " + shq(s)
                out.append(s)
                continue
            out.append(op * k + inner + cl * k)
            out.append(op * k + inner + cl * (k - 1))          # one closer missing
            out.append(op * k)                                  # cut
    # word-level nests (expansions nested through quotes), complete / one closer missing / cut, in the three places where
    # a word reaches the word parser without the tokenizer having vetted it first: an argument, a here-document body, a prompt string
    for op, cl, inner in WORD_NEST:
        for k in (1, 2, 8, 24, 32, 40, 64):
            for w in (op * k + inner + cl * k, op * k + inner + cl * (k - 1), op * k, op * k + inner):
                out.append("echo " + w)
                out.append("cat <<E\n" + w + "\nE\necho after\n")
                out.append("x=" + shq(w) + "; echo \"${x@P}\"; echo after")
    return out


def shq(s):
    return "'" + s.replace("'", "'\\''") + "'"


def run_exec(texts, front, timeout=10):
    def one(t):
        r = run_script("brush", t, front=front, timeout=timeout)
        return t, r
    return pmap(one, texts)


def run(tier):
    v = Verdict(PROP, tier, "exploration")
    build_harness()
    rnd = random.Random(SEED)
    cfgs = ["MC_Lexer_quick.cfg"] if tier == "quick" else ["MC_Lexer_quick.cfg", "MC_Lexer_core.cfg"]
    texts, states, distinct = [], 0, 0
    for cfg in cfgs:
        t, s, d = model_texts(cfg)
        texts += t
        states += s; distinct += d
    incomplete = {}
    corpus = set()
    for t in texts:
        corpus.add(t["cut"])
        corpus.add(t["done"])
        # a comment that runs to the end of the input is complete; the bash-specific keywords coproc / time / select change
        # what the following atoms mean in ways the automaton does not model: neither is used for the diagnostic clause,
        # which is raised only when brush reports success with no message while bash rejects the text
        if [m for m in t["open"] if m != "COMMENT"] and not any(kw in t["cut"] for kw in ("coproc", "time ", "select ")):
            incomplete[t["cut"]] = t["open"]
    boundary = [tpl % b for tpl in TEMPLATES for b in BOUNDARY]
    nests = nest_family()
    heretags = [pre + "<<" + dash + tag + tail for pre in ("a", "cat ", "$(cat ", "{ cat ") for dash in ("", "-") for tag in HERE_TAGS for tail in HERE_TAILS]
    extras = ["x='\\D{%s}'; echo \"${x@P}\"; echo after" % sp for sp in PROMPT_DATE] + ["x='%s'; echo \"${x@P}\"; echo after" % e for e in PROMPT_ESC] + ALIASES
    extras += [m + "\n" + b + "\necho after $?\n" for m in MODES for b in BODIES]
    # variables whose contents are arithmetic expressions referring to themselves or to each other: a diagnostic, never unbounded recursion
    cyc = ['a="a+1"', 'a="-a"', 'a="a?1:2"', 'a="b*2"; b="a-1"', 'a=a', 'a="(a)"', 'a="a,1"', 'a="a||1"', 'a="b"; b="c+0"; c="a"', 'v[0]="v[0]+1"; a="v[0]"', 'a="a++"', 'a="x=a"', 'a="!a"', 'a="a[0]"', 'a="$((1))+a"']
    uses = ['echo $((a))', '(( a )); echo $?', 'let a; echo $?', 'echo ${s:a}', 'x=(1 2); echo ${x[a]}', 'declare -i i; i=a; echo $i', '[[ a -eq 1 ]]; echo $?', 'echo $((a+a)) $((a))', 'for ((i=a; i<1; i++)); do :; done; echo $?']
    extras += ["s=abc; %s\n%s\necho after\n" % (c, u) for c in cyc for u in uses]
    chain = "; ".join("a%d=a%d+1" % (i, i + 1) for i in range(64)) + "; a64=1"
    extras += [chain + "\necho $((a0))\n", chain + "\n(( a0 > 60 )) && echo deep\n"]
    for s in boundary + nests + heretags + extras:
        corpus.add(s)
    corpus.discard("")
    corpus = sorted(corpus)
    # (1) in-process parser entry points on everything
    from .c19 import run_linedrv
    recs, problems = run_linedrv("parse", list(enumerate(corpus)), timeout=240)
    for pb in problems:
        v.violation("inproc-hang:" + str(pb.get("first_unanswered_line"))[:80], {"kind": "an in-process parser entry point hung or aborted the process", **pb})
    n_inproc = len(recs)
    for r in recs:
        for p in r.get("panics", []):
            if known_panic(v, corpus[r["id"]], p):
                continue
            v.violation("inproc:%s:%s" % (p.split(":")[0], corpus[r["id"]][:60]), {"kind": "panic in " + p.split(":")[0], "input": corpus[r["id"]], "panic": p})
    # (2) process-level execution
    execset = set(boundary + nests + heretags + extras)
    model_done = sorted(set(t["done"] for t in texts))
    model_cut = sorted(incomplete)
    k_done, k_cut = (14000, 6000) if tier == "quick" else (60000, 25000)
    execset.update(rnd.sample(model_done, min(k_done, len(model_done))))
    execset.update(rnd.sample(model_cut, min(k_cut, len(model_cut))))
    execlist = sorted(execset)
    n_exec = 0
    for front in ("c", "stdin"):
        sub = execlist if front == "c" else rnd.sample(execlist, min(len(execlist), 4000 if tier == "quick" else 12000))
        for t, r in run_exec(sub, front):
            n_exec += 1
            bad = None
            if r["panic"] or r["rc"] == 101:
                bad = "panic at %s" % r["panic"]
            elif r["signal"] is not None and r["signal"] not in (13,) and not r["timeout"]:
                bad = "killed by signal %s" % r["signal"]
            elif r["rc"] == 134:
                bad = "abort"
            elif r["timeout"]:
                b = run_script("bash", t, front=front, timeout=10)
                if not b["timeout"]:
                    r2 = run_script("brush", t, front=front, timeout=30)
                    if r2["timeout"]:
                        bad = "hang (bash finishes, brush does not within 30 s)"
            elif front == "c" and t in incomplete and r["rc"] == 0 and not r["err"].strip():
                # the automaton is an approximation of the reader (atoms glue into words, e.g. `aif `): the clause is
                # asserted only where bash, too, rejects the text with a diagnostic
                b = run_script("bash", t, front=front, timeout=10)
                if b["rc"] != 0 and b["err"].strip() and not b["timeout"]:
                    bad = "incomplete input accepted silently (rc=%s, stderr empty=%s; bash: rc=%s)" % (r["rc"], not r["err"].strip(), b["rc"])
            if bad:
                if known_panic(v, t, bad + " " + r["err"][-300:]):
                    continue
                v.violation("%s:%s" % (front, t[:80]), {"kind": bad, "front": front, "script": t, "rc": r["rc"], "stderr": r["err"][-500:], "open_modes": incomplete.get(t)})
    return v.finish({
        "evaluations": n_inproc * 6 + n_exec, "distinct_nontrivial": len(corpus),
        "rule": "texts reachable in the lexical mode automaton Lexer.tla with <= %s atoms (every prefix is a cut input; each also with its minimal completion), "
                "nesting families to depth 64 (with one closer missing / cut), %d numeric templates x %d boundary literals; all go through 6 in-process parser entry points, a sample "
                "(quick) / all (thorough) are executed with -c and over stdin; distinct by text, non-trivial = non-empty"
                % ("3 (all atoms)" if tier == "quick" else "3 (all atoms) / 4 (core atoms)", len(TEMPLATES), len(BOUNDARY)),
        "states": states, "automaton_texts": len(texts), "incomplete_texts": len(incomplete), "executed": n_exec, "in_process_calls": n_inproc * 6,
        "exhaustive": False,
        "samples": [{"text": corpus[len(corpus) // 3]}, {"text": corpus[len(corpus) // 2]}, {"boundary": boundary[7]}, {"nest": nests[10][:80]}],
    }, assumptions=["model-directed exploration, not byte-level fuzzing: inputs longer than the bounds and arbitrary byte mutations are not covered",
                    "a hang is declared only if bash finishes the same text within 10 s and brush does not within 30 s"])


def known_panic(v, text, msg):
    for f in v.findings:
        if f.get("status") == "known" and f.get("mode") == "class" and f.get("match"):
            if re.search(f["match"], msg) and (not f.get("input_match") or re.search(f["input_match"], text)):
                v.known(f["id"], f["what"][:110])
                return True
    return False


def replay(path):
    with open(path) as f:
        c = json.load(f)
    build_harness()
    if "script" in c:
        r = run_script("brush", c["script"], front=c.get("front", "c"), timeout=30)
        bad = r["panic"] or r["rc"] in (101, 134) or r["timeout"] or (r["signal"] not in (None, 13))
        print("rc", r["rc"], "panic", r["panic"], "timeout", r["timeout"])
    else:
        from .c19 import run_linedrv
        recs, problems = run_linedrv("parse", [(0, c["input"])])
        bad = bool(problems) or any(r.get("panics") for r in recs)
        print(recs)
    if bad:
        print("VIOLATION property=%s replay=%s" % (PROP, path))
    return 1 if bad else 0
