------------------------------- MODULE MC_Glob -------------------------------
(* Exhaustive evaluation of Glob.tla over an enumerated (pattern, subject) domain, one ROW per pattern:
   the pattern tokens, whether its meaning is defined, and the sets of subjects it matches with and
   without nocasematch.  The work is split into NChunks independent TLC runs by the first token.      *)
EXTENDS Glob, Json

CONSTANTS PatToks,      \* sequence of tokens patterns are built from
          PatLen,       \* maximal pattern length (tokens)
          SubChars,     \* set of characters subjects are built from
          SubLen,       \* maximal subject length
          EG,           \* extglob on?
          Chunk, NChunks

TokSet == {PatToks[i] : i \in 1..Len(PatToks)}
TokIdx(t) == CHOOSE i \in 1..Len(PatToks) : PatToks[i] = t
Seqs(S, n) == UNION {[1..m -> S] : m \in 0..n}
Subjects == Seqs(SubChars, SubLen)
Pats == {p \in Seqs(TokSet, PatLen) : IF p = <<>> THEN Chunk = 0 ELSE (TokIdx(p[1]) % NChunks) = Chunk}

Row(p) == [p |-> p, wd |-> WellDefined(p, EG),
           m |-> {s \in Subjects : Match(p, s, EG, FALSE)},
           mnc |-> {s \in Subjects : Match(p, s, EG, TRUE)}]

\* properties of the definition, evaluated on every enumerated pattern (only where defined)
Sane(p) == WellDefined(p, EG) =>
             /\ ((\A i \in 1..Len(p) : p[i] \notin {"^", "!", "!("}) =>
                    \A s \in Subjects : Match(p, s, EG, FALSE) => Match(p, s, EG, TRUE))          \* folding only adds matches (unless something is negated)
             /\ (p # <<>> /\ p[Len(p)] = "*" /\ (Len(p) = 1 \/ p[Len(p)-1] \notin {"\\", "["} \cup ExtOpeners)) =>
                   \A s \in Subjects : Match(p, s, EG, FALSE) => \A c \in SubChars : Len(s) < SubLen => Match(p, Append(s, c), EG, FALSE)

\* ---- configurations (cfg files cannot hold tuples)
Q_PatToks == <<"a", "b", "*", "?", "[", "]", "!", "-", "\\", "NL">>
Q_SubChars == {"a", "b", "]", "NL", "U"}
\* bracket classes, case, dots, ranges
C_PatToks == <<"a", "B", "0", ".", "[", "]", "^", "-", "[:alpha:]", "[:digit:]", "[:upper:]", "[:space:]", "*", "?">>
C_SubChars == {"a", "A", "B", "0", ".", " "}
\* extglob
E_PatToks == <<"a", "b", "*", "?(", "*(", "+(", "@(", "!(", "|", ")">>
E_SubChars == {"a", "b"}

VARIABLE done
Init == done = FALSE
Next == done' = TRUE
Emit == done \/ \A p \in Pats : /\ PrintT(<<"ROW", ToJson(Row(p))>>)
                        /\ (Sane(p) \/ Print(<<"INSANE", p>>, FALSE))
=============================================================================
