------------------------------- MODULE Subshell -------------------------------
(* Subshell isolation (C12): brush-core/src/shell.rs (impl Clone for Shell), interp.rs (Subshell, pipelines, background
   jobs), commands.rs (command substitution), builtins umask / ulimit / cd / exec / trap / alias / set / shopt.

   A subshell is a CLONE of the shell object running as a task in the same process.  The parent's state is a record of
   components; each mutator changes one component of whoever runs it.
     parent, child   component -> version number (a mutation bumps the version of its component)
     phase           "idle" | "in" (a subshell of kind ctx is running) | "done"
     prog            the mutators executed so far in the subshell (history, for emission)
   Isolation:  whatever the subshell does, the parent's record is unchanged when it has finished.
   DEV ProcessWideShared: components that live in the PROCESS rather than in the Shell object (umask, resource limits)
   are shared between parent and clone, so the subshell's change is the parent's too.                               *)
EXTENDS Naturals, Sequences, FiniteSets, TLC

CONSTANTS Components, Mutators, CompOf, Contexts, ProcessWide, DEV, MaxMut
\* CompOf: mutator -> component it changes ("none" for exit, which only ends the subshell)

VARIABLES parent, child, phase, ctx, prog
vars == <<parent, child, phase, ctx, prog>>

Init == /\ parent = [c \in Components |-> 0] /\ child = [c \in Components |-> 0] /\ phase = "idle" /\ ctx = "none" /\ prog = <<>>
Fork(k) == /\ phase = "idle" /\ phase' = "in" /\ ctx' = k
           /\ child' = parent                         \* the clone starts as a copy
           /\ UNCHANGED <<parent, prog>>
Shared(c) == "ProcessWideShared" \in DEV /\ c \in ProcessWide
Mutate(m) == /\ phase = "in" /\ Len(prog) < MaxMut
             /\ (IF prog = <<>> THEN TRUE ELSE CompOf[prog[Len(prog)]] # "none")          \* nothing runs after exit
             /\ prog' = Append(prog, m)
             /\ LET c == CompOf[m] IN
                IF c = "none" THEN UNCHANGED <<parent, child>>
                ELSE /\ child' = [child EXCEPT ![c] = @ + 1]
                     /\ parent' = IF Shared(c) THEN [parent EXCEPT ![c] = @ + 1] ELSE parent
             /\ UNCHANGED <<phase, ctx>>
Join == /\ phase = "in" /\ prog # <<>> /\ phase' = "done" /\ UNCHANGED <<parent, child, ctx, prog>>      \* only status and output flow back
Next == (\E k \in Contexts : Fork(k)) \/ (\E m \in Mutators : Mutate(m)) \/ Join
Spec == Init /\ [][Next]_vars

Changed == {c \in Components : parent[c] # 0}
Isolation == Changed = {}                                                   \* the ideal: holds in every state
OnlyProcessWideLeaks == Changed \subseteq ProcessWide                       \* what the clone design can guarantee
LeakNeedsMutation == \A c \in Changed : \E i \in 1..Len(prog) : CompOf[prog[i]] = c
=============================================================================
