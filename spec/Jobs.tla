------------------------------- MODULE Jobs -------------------------------
(* Background jobs and `wait` (C17): brush-core/src/jobs.rs (JobManager::add_as_current, wait_all,
   poll, sweep_completed_jobs, Job::wait), interp.rs spawn_async_ao_list_in_task, builtins/wait.rs.

   One shell (one JobManager).  A job has one task (a tokio task running a clone of the shell).
     jobs     the manager's vector: Seq([id, tok])
     task     tok -> "none" | "spawned" | "running" | "ended"   (ended = its body has completed, all
              its output and file effects are done; the join handle becomes ready afterwards)
     waiting  the foreground is inside wait_all: [on, snap = toks it must await, next = position]
     waited   toks whose Job::wait has returned
     nl       number of jobs launched so far (= next tok - 1)
     pend     tok of a task that has been spawned but not yet registered in the table (0 = none)
   The schedule is the interleaving of TaskBegin / TaskEnd with the foreground's actions; TLC explores
   all of them.  Poll is the completion sweep the interactive / stdin loop performs between commands.

   DEV "JobIdFromLen": as built the id of a new job was Len(jobs)+1 (ideal, bash: highest live id + 1). *)
EXTENDS Naturals, Sequences, FiniteSets, TLC

CONSTANTS MaxJobs, DEV, PollEnabled

VARIABLES jobs, task, waiting, waited, nl, pend
vars == <<jobs, task, waiting, waited, nl, pend>>

Toks == 1..MaxJobs
Ids == {jobs[i].id : i \in 1..Len(jobs)}
MaxId == IF Ids = {} THEN 0 ELSE CHOOSE m \in Ids : \A x \in Ids : x <= m
NewId == IF "JobIdFromLen" \in DEV THEN Len(jobs) + 1 ELSE MaxId + 1
NotWaiting == [on |-> FALSE, snap |-> <<>>, next |-> 0]
RemoveAt(s, i) == SubSeq(s, 1, i - 1) \o SubSeq(s, i + 1, Len(s))

Init == jobs = <<>> /\ task = [t \in Toks |-> "none"] /\ waiting = NotWaiting /\ waited = {} /\ nl = 0 /\ pend = 0

\* `cmd &` : clone the shell and spawn the task (it may begin - even end - before it is registered) ...
Spawn == /\ ~waiting.on /\ pend = 0 /\ nl < MaxJobs
         /\ nl' = nl + 1 /\ pend' = nl + 1
         /\ task' = [task EXCEPT ![nl + 1] = "spawned"]
         /\ UNCHANGED <<jobs, waiting, waited>>
\* ... then register the job (add_as_current)
Register == /\ pend # 0
            /\ jobs' = Append(jobs, [id |-> NewId, tok |-> pend]) /\ pend' = 0
            /\ UNCHANGED <<task, waiting, waited, nl>>
TaskBegin(t) == task[t] = "spawned" /\ task' = [task EXCEPT ![t] = "running"] /\ UNCHANGED <<jobs, waiting, waited, nl, pend>>
TaskEnd(t) == task[t] = "running" /\ task' = [task EXCEPT ![t] = "ended"] /\ UNCHANGED <<jobs, waiting, waited, nl, pend>>

\* `wait` without arguments
WaitAllBegin == /\ ~waiting.on /\ pend = 0
                /\ waiting' = [on |-> TRUE, snap |-> [i \in 1..Len(jobs) |-> jobs[i].tok], next |-> 1]
                /\ UNCHANGED <<jobs, task, waited, nl, pend>>
\* Job::wait returns for the next job in table order: only once its task has ended
JobWaited(t) == /\ waiting.on /\ waiting.next <= Len(waiting.snap) /\ waiting.snap[waiting.next] = t
                /\ task[t] = "ended"
                /\ waited' = waited \cup {t} /\ waiting' = [waiting EXCEPT !.next = @ + 1]
                /\ UNCHANGED <<jobs, task, nl, pend>>
\* all awaited: sweep_completed_jobs removes every job whose tasks were awaited (synchronously, under &mut self)
WaitAllEnd == /\ waiting.on /\ waiting.next > Len(waiting.snap)
              /\ waiting' = NotWaiting
              /\ jobs' = SelectSeq(jobs, LAMBDA j : j.tok \notin waited)
              /\ UNCHANGED <<task, waited, nl, pend>>
\* `wait %n`: Job::wait for one job; the job stays in the table until a later sweep / poll
WaitOne(t) == /\ ~waiting.on /\ pend = 0 /\ \E i \in 1..Len(jobs) : jobs[i].tok = t
              /\ task[t] = "ended"                       \* (waiting again for an already awaited job returns at once)
              /\ waited' = waited \cup {t} /\ UNCHANGED <<jobs, task, waiting, nl, pend>>
\* JobManager::poll between commands (interactive / stdin loop): drop jobs that have completed
Poll(t) == /\ PollEnabled /\ ~waiting.on /\ pend = 0
           /\ \E i \in 1..Len(jobs) : jobs[i].tok = t /\ task[t] = "ended" /\ jobs' = RemoveAt(jobs, i)
           /\ UNCHANGED <<task, waiting, waited, nl, pend>>

Next == \/ Spawn \/ Register \/ WaitAllBegin \/ WaitAllEnd
        \/ \E t \in Toks : TaskBegin(t) \/ TaskEnd(t) \/ JobWaited(t) \/ WaitOne(t) \/ Poll(t)
Spec == Init /\ [][Next]_vars /\ WF_vars(Next)

\* ---------------- properties (C17) ----------------
DistinctIds == \A i, j \in 1..Len(jobs) : i # j => jobs[i].id # jobs[j].id
\* when wait_all is past its last Job::wait, every job it had to await has really ended
WaitComplete == (waiting.on /\ waiting.next > Len(waiting.snap)) => \A i \in 1..Len(waiting.snap) : task[waiting.snap[i]] = "ended"
\* a job is reported awaited only after its task ended; tasks never go backwards
WaitedEnded == \A t \in waited : task[t] = "ended"
\* no launched job is lost from the table while its task is still going (unless awaited)
NoLostJob == \A t \in Toks : (task[t] \in {"spawned", "running"} /\ t # pend) => \E i \in 1..Len(jobs) : jobs[i].tok = t
TypeOK == nl \in 0..MaxJobs
WaitReturns == [](waiting.on => <>(~waiting.on))
=============================================================================
