CONSTANTS
  MaxDepth = 4
SPECIFICATION TraceSpec
POSTCONDITION Report
CHECK_DEADLOCK FALSE
