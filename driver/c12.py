"""C12 - subshell isolation (spec/Subshell.tla, MC_Subshell.tla): for every subshell context x every sequence of <= 2
mutators the parent's full state dump (variables, functions, set -o, shopt, aliases, traps, directory, umask, limits,
positional parameters, descriptors, directory stack, hash table) is taken before and after; the set of components that
changed must be the one the model predicts: none (ideal), or only process-wide ones when the subshell touched them
(the recorded deviation of the clone design)."""
import random
from .common import *

PROP = "C12"
KNOWN_DEVS_ALL = ["ProcessWideShared"]
MUT = {
    "asg": "x=changed", "unset": "unset y", "export": "export newv=1", "readonly": "readonly ro=1", "declint": "declare -i x", "ifs": "IFS=:", "path": "PATH=/nonexistent:$PATH", "optind": "OPTIND=7",
    "arr": "x=(1 2 3)", "assoc": "declare -A m=([k]=v)", "fdef": "newf() { :; }", "fundef": "unset -f g", "sete": "set -e", "setu": "set -u", "pipefail": "set -o pipefail", "noglob": "set -f",
    "nullglob": "shopt -s nullglob", "extglob": "shopt -s extglob", "alias": "alias na=nb", "unalias": "unalias b", "trapusr": "trap 'echo t' USR1", "trapexit": "trap 'echo bye' EXIT", "trapdbg": "trap ': dbg' DEBUG",
    "cd": "cd /", "umask": "umask 077", "ulimit": "ulimit -f 2000000", "setargs": "set -- changed", "shift": "shift", "exec3": "exec 3>../f3", "exec2": "exec 2>/dev/null", "execin": "exec </dev/null",
    "pushd": "pushd / >/dev/null", "hashr": "hash -p /bin/true mycmd", "exit": "exit 3", "return": "return 5", "execcmd": "exec true", "execa": "exec -a other true", "expasg": ": ${newv:=set}", "exparith": ": $((x+=5))",
}
# the ext* contexts run ONE external command in the subshell context; the mutations are the side effects of expanding its words
# (mutators without an expansion form contribute nothing there: the model still says the parent is unchanged)
EXPFORM = {"expasg": "${newv:=set}", "exparith": "$((x+=5))", "asg": "${newv2:=changed}", "optind": "$((OPTIND=7))", "shift": ">/dev/null$((y+=1))"}
SECTIONS = ["vars", "funcs", "opts", "shopts", "aliases", "traps", "cwd", "umask", "ulimit", "args", "fds", "dirs", "hash"]
VOLATILE = r"^declare -[-A-Za-z]* (BASH_COMMAND|LINENO|RANDOM|SRANDOM|SECONDS|_|BASHPID|EPOCHSECONDS|EPOCHREALTIME|FUNCNAME|BASH_ARGC|BASH_ARGV|BASH_LINENO|BASH_SOURCE|PIPESTATUS|BASH_SUBSHELL|COMP_WORDBREAKS|BASH_ARGV0|__s|__l)\b"
HEAD = r'''D() {
  local __s __l=$1
  shift
  for __s in vars funcs opts shopts aliases traps cwd umask ulimit args fds dirs hash; do
    echo "#### $__l $__s"
    case $__s in
      vars) declare -p | grep -Ev '@VOL@' ;;
      funcs) declare -f | grep -v '^D ()' ;;
      opts) set -o ;;
      shopts) shopt ;;
      aliases) alias ;;
      traps) trap -p ;;
      cwd) pwd ;;
      umask) umask ;;
      ulimit) ulimit -a ;;
      args) printf '%s|' "$#" "$@"; echo ;;
      fds) ls -l /proc/self/fd 2>/dev/null | sed -e 's/.* \([0-9]* -> .*\)/\1/' -e 's/pipe:\[[0-9]*\]/pipe/' | grep -v '/proc/' ;;
      dirs) dirs ;;
      hash) hash 2>&1 | sed -e 's/^ *[0-9][0-9]* *//' | sort ;;
    esac
  done
} >>../dump 2>&1
x=0; y=1; export e=1; g() { :; }; alias b=c; trap 'echo usr2' USR2; set -- p q r; hash ls grep sed sort cat true >/dev/null 2>&1; h() ( : )
'''.replace("@VOL@", VOLATILE.replace("\\b", "\\>"))


def wrap(ctx, body):
    return {
        "paren": "( %s )" % body, "cs": ': "$( %s )"' % body, "bq": ': "`%s`"' % body, "pipefirst": "{ %s; } | cat >/dev/null" % body, "pipelast": "true | { %s; }" % body,
        "bg": "{ %s; } & wait" % body, "procsub": "cat <( %s ) >/dev/null" % body, "coproc": "coproc { %s; }; wait" % body, "nested": "( ( %s ); : )" % body,
        "bgjob": "{ %s; } & wait %%1" % body, "coprocjob": "coproc { %s; }; wait %%1" % body,
        "fnbgjob": "", "fnparen": "", "funcsub": "h() ( %s ); h" % body,      # (h exists beforehand with another body: the definition itself changes `funcs`, see below)
    }[ctx]


def script(case):
    body = "; ".join(MUT[m] for m in case["muts"])
    if case["ctx"].startswith("ext"):
        args = " ".join(EXPFORM[m] for m in case["muts"] if m in EXPFORM)
        ext = "/bin/true " + args
        w = {"extfirst": ext + " | cat >/dev/null", "extlast": "true | " + ext, "extbg": ext + " & wait", "extcs": ': "$(' + ext + ')"'}[case["ctx"]]
        return "cd w || exit 9\n" + HEAD + 'D warm "$@"\n: > ../dump\nD before "$@"\n' + w + ' 2>/dev/null\nD after "$@"\n'
    if case["ctx"].startswith("in_"):
        # the parent that must stay unchanged is itself a subshell: both dumps are taken inside it, around a nested ( )
        inner = 'D before "$@"\n( %s ) 2>/dev/null\nD after "$@"' % body
        w = {"in_bg": "(\n%s\n) & wait", "in_paren": "(\n%s\n)", "in_cs": ': "$(\n%s\n)"', "in_pipe": "true | {\n%s\n}"}[case["ctx"]] % inner
        return "cd w || exit 9\n" + HEAD + 'D warm "$@"\n: > ../dump\n' + w + "\n"
    pre, w = "", wrap(case["ctx"], body)
    if case["ctx"] == "funcsub":
        pre, w = "h() ( %s )\n" % body, "h"          # defining h is the parent's own doing: it happens before the first dump
    # inside a function: the subshell's `return` / `exit` must not make the FUNCTION return (the marker file says the function went on)
    if case["ctx"] == "fnbgjob":
        pre, w = "h() { { %s; } & wait %%1; : > ../resumed; }\n" % body, "h"
    if case["ctx"] == "fnparen":
        pre, w = "h() { ( %s ); : > ../resumed; }\n" % body, "h"
    return "cd w || exit 9\n" + HEAD + pre + 'D warm "$@"\n: > ../dump\nD before "$@"\n' + w + ' 2>/dev/null\nD after "$@"\n'


def changed(dump):
    sec = {"before": {}, "after": {}}
    cur = None
    for ln in dump.splitlines():
        m = re.match(r"^#### (before|after) (\w+)$", ln)
        if m:
            cur = (m.group(1), m.group(2))
            sec[cur[0]][cur[1]] = []
        elif cur:
            sec[cur[0]][cur[1]].append(ln)
    if set(sec["before"]) != set(SECTIONS) or set(sec["after"]) != set(SECTIONS):
        return None, sec
    return sorted(s for s in SECTIONS if sec["before"][s] != sec["after"][s]), sec


def model(cfg):
    r = run_tlc("MC_Subshell", cfg, workers=8, want_lines=("CASE",), timeout=1200, xmx="6g")
    if not r["ok"]:
        raise ToolError("MC_Subshell %s failed: %s\n%s" % (cfg, r["violation"], r.get("full", "")[-1500:]))
    return r["lines"]["CASE"], r["distinct"]


def observe(shell, scr):
    r = run_script(shell, scr, front="file", stdin_data=b"", timeout=60, files={"w/.keep": ""}, keep=True)
    p = os.path.join(r["dir"], "dump")
    dump = open(p, "rb").read().decode("utf-8", "replace") if os.path.exists(p) else ""
    r["resumed"] = os.path.exists(os.path.join(r["dir"], "resumed"))
    shutil.rmtree(r["dir"], ignore_errors=True)
    return dump, r


def run(tier):
    v = Verdict(PROP, tier, "model_checking")
    build_harness()
    ideal, states = model("MC_Subshell_ideal.cfg")
    built, _ = model("MC_Subshell_asbuilt.cfg")
    neg = run_tlc("MC_Subshell", "MC_Subshell_exitprop.cfg", workers=4, timeout=600, xmx="4g")
    if neg["ok"]:
        raise ToolError("Subshell.tla self-test: ParentSurvives should be violated when the subshell's exit is handed to the parent")
    key = lambda c: json.dumps([c["ctx"], c["muts"]])
    bmap = {key(c): sorted(c["changed"]) for c in built}
    cases = sorted(ideal, key=key)
    rnd = random.Random(SEED)
    if tier == "quick":
        singles = [c for c in cases if len(c["muts"]) == 1]
        pairs = [c for c in cases if len(c["muts"]) == 2]
        cases = singles + rnd.sample(pairs, 5000)

    def one(c):
        scr = script(c)
        db, rb = observe("bash", scr)
        dr, rr = observe("brush", scr)
        return c, scr, db, dr, rr, rb
    evals = nontrivial = 0
    for c, scr, db, dr, rr, rb in pmap(one, cases):
        evals += 1
        if crashed(rr) or rr["timeout"]:
            v.violation("crash:" + key(c), {"kind": "crash or hang", "script": scr, "stderr": rr["err"][-400:]})
            continue
        cb, secb = changed(db)
        cr, secr = changed(dr)
        marker = c["ctx"] in ("fnbgjob", "fnparen")
        if cb != sorted(c["changed"]) or (marker and rb["resumed"] != c["alive"]):
            v.audit_miss({"case": c, "bash_changed": cb, "bash_resumed": rb["resumed"]})
            continue
        nontrivial += 1
        if marker and rr["resumed"] != c["alive"]:
            v.violation(key(c) + ":flow", {"kind": "the function that started the subshell did not go on after it (the subshell's exit / return reached the parent)", "script": scr, "ctx": c["ctx"], "muts": c["muts"], "stderr": rr["err"][-300:]})
            continue
        if cr == sorted(c["changed"]):
            continue
        if cr is not None and cr == bmap[key(c)]:
            f = v.known_dev("ProcessWideShared")
            if f:
                v.known(f["id"], f["what"][:110])
                continue
        if known(v, c, cr):
            continue
        detail = {}
        if cr:
            for s in cr[:3]:
                detail[s] = {"before": [l for l in secr["before"][s] if l not in secr["after"][s]][:4], "after": [l for l in secr["after"][s] if l not in secr["before"][s]][:4]}
        v.violation(key(c), {"kind": "the parent's state changed" if cr else "the state dump is incomplete (the parent did not survive the subshell?)", "script": scr, "ctx": c["ctx"], "muts": c["muts"],
                             "expected_changed": sorted(c["changed"]), "as_built_prediction": bmap[key(c)], "observed_changed": cr, "detail": detail, "stderr": rr["err"][-300:]})
    if v.audit_disagreements > 0.2 * max(1, evals):
        raise ToolError("model/bash disagreement rate too high: %d of %d" % (v.audit_disagreements, evals))
    return v.finish({
        "states": states, "transitions": len(ideal), "traces_validated_against_impl": evals, "evaluations": evals, "distinct_nontrivial": nontrivial,
        "rule": "subshell contexts {the parent observed from inside a background ( ), a ( ), a $( ) and a pipeline stage around a nested ( ); ( ), $( ), backquotes, first pipeline stage, last pipeline stage, background job + wait, process substitution, coproc, nested ( ( ) ), function with a ( ) body} x every sequence of <= 2 of %d mutators "
                "(assignments of several kinds, unset, export, readonly, attributes, IFS, PATH, function definition / removal, set -e -u -f pipefail, shopt, alias / unalias, traps (signal, EXIT, DEBUG), cd, umask, ulimit, set --, shift, "
                "exec redirections of 3 / 2 / 0, pushd, hash, exit)%s; the parent's dump of 13 components before and after must differ exactly where Subshell.tla says" % (len(MUT), " (all single mutators, 5000 sampled pairs)" if tier == "quick" else ""),
        "cases": len(cases), "exhaustive": tier != "quick",
        "samples": [{"ctx": c0["ctx"], "muts": c0["muts"]} for c0 in cases[:: max(1, len(cases) // 3)][:3]],
    }, assumptions=["bash 5.2.15 is the reference: a case counts only if bash's own dump is unchanged (volatile variables are filtered)", "concurrency with parent activity is exercised only through pipelines, background jobs and process substitution"])


def known(v, c, cr):
    for f in v.findings:
        if f.get("status") == "known" and f.get("mode") == "class":
            if f.get("contexts") and c["ctx"] not in f["contexts"]:
                continue
            if f.get("muts_any") and not any(m in f["muts_any"] for m in c["muts"]):
                continue
            if f.get("observed") is not None and cr != f["observed"]:
                continue
            if f.get("observed_within") is not None and (cr is None or not set(cr) <= set(f["observed_within"])):
                continue
            v.known(f["id"], f["what"][:110])
            return True
    return False


def replay(path):
    with open(path) as f:
        c = json.load(f)
    build_harness()
    d, r = observe("brush", c["script"])
    cr, _ = changed(d)
    print("expected", c["expected_changed"], "observed", cr)
    if cr != c["expected_changed"]:
        print("VIOLATION property=%s replay=%s" % (PROP, path))
        return 1
    return 0
