\* C02 quick: every construct in every (focus) hole of every construct; full leaf set innermost
CONSTANTS
  Depth = 2
  MaxNodes = 9
  Bushy = FALSE
  LeavesFull <- C02_Full
  LeavesLite <- C02_Lite
  Constructs <- C02_Constructs
  CaseShapes <- C02_Cases
INIT Init
NEXT Next
INVARIANT Emit
CHECK_DEADLOCK FALSE
