"""C10 - redirections give each command bash's descriptors and are undone afterwards (spec/Fd.tla, MC_Fd.tla), and
here-document bodies arrive byte-exact (spec/HereDoc.tla, when present).

Part (a): programs drawn by index from MC_Fd.tla (redirection lists of length <= 3 over 34 redirections on simple commands and
on brace groups / subshells / loops / functions / function definitions nested two levels, optional `set -C` and `exec`
prefixes); the probe command fdprobe reports the descriptors it received, what it could read from descriptor 0, and writes
a tag to every writable descriptor; a final plain probe inventories the shell's own table.  Files, captured stdout /
stderr and the probe reports must equal the model's (and bash's)."""
import random
from .common import *

PROP = "C10"
CH = {"NL": "\n", "NUL": "\0"}


def txt(seq):
    return "".join(CH.get(c, c) for c in seq)


def model(nchunks, per, offset):
    d = tempfile.mkdtemp(prefix="fd-", dir=scratch())
    cfg = os.path.join(d, "m.cfg")
    with open(cfg, "w") as f:
        f.write("CONSTANTS NChunks = %d PerChunk = %d Offset = %d\nINIT Init\nNEXT Next\nINVARIANT Emit\nCHECK_DEADLOCK FALSE\n" % (nchunks, per, offset))
    r = run_tlc("MC_Fd", cfg, workers=min(nchunks, 14), want_lines=("PROG",), timeout=3000, xmx="8g")
    shutil.rmtree(d, ignore_errors=True)
    if not r["ok"]:
        raise ToolError("MC_Fd failed: %s\n%s" % (r["violation"], r.get("full", "")[-1500:]))
    return r["lines"]["PROG"], r["distinct"]


def redir_text(r, h):
    op, n, w = r["op"], r["n"], r["w"]
    dflt = {"in": 0, "out": 1, "app": 1, "clob": 1, "rw": 0, "dupout": 1, "dupin": 0, "text": 0}
    pre = "" if (op in dflt and dflt[op] == n and h % 2 == 0) else str(n)
    if op == "in":
        return "%s<%s" % (pre, w)
    if op == "out":
        return "%s>%s" % (pre, w)
    if op == "app":
        return "%s>>%s" % (pre, w)
    if op == "clob":
        return "%s>|%s" % (pre, w)
    if op == "rw":
        return "%s<>%s" % (pre, w)
    if op == "dupout":
        return "%s>&%d" % (pre, w)
    if op == "dupin":
        return "%s<&%d" % (pre, w)
    if op == "close":
        return "%d%s&-" % (n, ">" if h % 3 else "<")
    if op == "both":
        return "&>%s" % w if h % 2 else ">&%s" % w
    if op == "bothapp":
        return "&>>%s" % w
    if op == "text":
        return "%s<<<%s" % (pre, txt(w).rstrip("\n"))
    raise ValueError(op)


def hsh(*a):
    return int(hashlib.sha1(json.dumps(a).encode()).hexdigest()[:8], 16)


def render_stmt(st, k, path, fn):
    h = hsh(k, path)
    rs = " ".join(redir_text(r, hsh(k, path, i)) for i, r in enumerate(st.get("rs", [])))
    if st["k"] == "setC":
        return "set -C"
    if st["k"] == "exec":
        return "exec " + rs
    if st["k"] == "cmd":
        parts = [redir_text(r, hsh(k, path, i)) for i, r in enumerate(st["rs"])]
        if parts and h % 4 == 0:
            return "%s fdprobe %s %s" % (parts[0], st["tag"], " ".join(parts[1:]))      # a redirection may precede the command word
        return "fdprobe %s %s" % (st["tag"], " ".join(parts))
    body = "; ".join(render_stmt(b, k, path + [i], fn) for i, b in enumerate(st["body"]))
    kind = h % 7
    if kind == 0:
        return "{ %s; } %s" % (body, rs)
    if kind == 1:
        return "( %s ) %s" % (body, rs)
    if kind == 2:
        return "for i in 1; do %s; done %s" % (body, rs)
    if kind == 3:
        fn[0] += 1
        return "fn%d() { %s; }; fn%d %s" % (fn[0], body, fn[0], rs)
    if kind == 4:
        fn[0] += 1
        return "fn%d() { %s; } %s; fn%d" % (fn[0], body, rs, fn[0])
    if kind == 5:
        return "if true; then %s; fi %s" % (body, rs)
    return "while :; do %s; break; done %s" % (body, rs)


def render(p):
    fn = [0]
    return "\n".join(render_stmt(st, p["k"], [i], fn) for i, st in enumerate(p["prog"])) + "\n"


def expected(p):
    res = p["res"]
    files = {n: (None if c == ["ABSENT"] else txt(c).replace("\0", "")) for n, c in res["files"].items()}
    reps = [(r["tag"], tuple(sorted((x[0], bool(x[1]), bool(x[2])) for x in r["fds"])), txt(r["inp"])) for r in res["rep"]]
    return {"files": files, "out": txt(res["out"]), "err": txt(res["err"]), "rep": reps}


TAGS = re.compile(r"[abcdz][0-9]")
DIAG = re.compile(r"(s\.sh: line \d+:[^\n]*\n|\x1b\[31merror:[^\n]*\n|error:[^\n]*\n|fdprobe: [^\n]*\n)")      # diagnostics that landed in a file through a redirected stderr


def observe(shell, scr):
    r = run_script(shell, scr, front="file", stdin_data=b"", timeout=60, files={"w/f": "FFF"}, extra_env={"FDREPORT": "../report"}, keep=True, )
    d = r["dir"]
    out = {"files": {}, "rep": []}
    dirty = False
    for n in ("f", "g"):
        pth = os.path.join(d, "w", n)
        # (holes: a diagnostic written through a redirected stderr moves the shared offset by the length of ITS text, which differs
        # between shells, so the size of a hole is not compared)
        if os.path.exists(pth) and re.search(rb"[^a-dzF0-9\x00]", open(pth, "rb").read()):
            dirty = True              # a diagnostic went into the file through a redirected stderr: its text (shell-specific) shares offsets with the tags
        out["files"][n] = DIAG.sub("", open(pth, "rb").read().decode("utf-8", "replace")).replace("\0", "") if os.path.exists(pth) else None
    rp = os.path.join(d, "report")
    if os.path.exists(rp):
        for ln in open(rp):
            m = re.match(r"^(\S+) fds=(\S*) inp=(\S*)$", ln.strip())
            if m:
                fds = tuple(sorted((int(re.match(r"\d+", x).group(0)), "r" in x, "w" in x) for x in m.group(2).split(",") if x))
                out["rep"].append((m.group(1), fds, bytes.fromhex(m.group(3)).decode("utf-8", "replace")))
    out["out"] = "".join(TAGS.findall(DIAG.sub("", r["out"])))
    out["err"] = "".join(TAGS.findall(DIAG.sub("", r["err"])))
    shutil.rmtree(d, ignore_errors=True)
    r["dirty"] = dirty
    return out, r


def run(tier):
    v = Verdict(PROP, tier, "model_checking")
    build_harness()
    n = 6000 if tier == "quick" else 15000
    progs, states = model(14, (n + 13) // 14, (SEED - 1) * 7 % 1000)
    progs.sort(key=lambda p: p["k"])

    def one(p):
        scr = "cd w || exit 9\n" + render(p)
        b, rb = observe("bash", scr)
        r, rr = observe("brush", scr)
        if rb["dirty"] or rr["dirty"]:
            b["files"] = r["files"] = "not compared (diagnostics were written into the files)"
        return p, scr, b, r, rr
    evals = nontrivial = 0
    for p, scr, b, r, rr in pmap(one, progs):
        evals += 1
        exp = expected(p)
        if isinstance(b["files"], str):
            exp["files"] = b["files"]
        if crashed(rr) or rr["timeout"]:
            v.violation("crash:%d" % p["k"], {"kind": "crash or hang", "script": scr, "stderr": rr["err"][-400:]})
            continue
        if b != exp:
            key = next(kk for kk in exp if b[kk] != exp[kk])
            v.audit_miss({"script": scr, "differs": key, "model": exp[key], "bash": b[key]})
            continue
        nontrivial += 1
        if r != exp:
            key = next(kk for kk in exp if r[kk] != exp[kk])
            if known(v, scr, key, exp, r, rr["err"]):
                continue
            v.violation("prog:%d" % p["k"], {"kind": "%s differ" % key, "script": scr, "differs": key, "expected": exp[key], "observed": r[key], "stderr": rr["err"][-300:], "k": p["k"]})
    parts = ["a"]
    evals_b = 0
    try:
        from . import c10b
    except ImportError:
        c10b = None
    if c10b:
        evals_b = c10b.run_part(v, tier)
        parts.append("b")
    if v.audit_disagreements > 0.1 * max(1, evals + evals_b):
        raise ToolError("model/bash disagreement rate too high: %d of %d" % (v.audit_disagreements, evals + evals_b))
    return v.finish({
        "states": states, "transitions": len(progs), "traces_validated_against_impl": evals + evals_b, "evaluations": evals + evals_b, "distinct_nontrivial": nontrivial + evals_b,
        "rule": "part a: %d programs drawn by index from MC_Fd.tla: [set -C | exec list] + two statements (a probe with a redirection list of 0-3 of 34 redirections over descriptors 0-5 and files f (existing) g (absent): "
                "< > >> >| <> N>&M N<&M N>&- &> &>> <<<; or a compound - brace group, subshell, for, while, if, function call, function definition with redirections - around one or two probes, nested two levels) + a final "
                "plain probe that inventories the shell's own descriptors; compared: contents of f and g, tag sequences on stdout and stderr, and for every probe the descriptors it had with access modes and what it read from 0; "
                "parts run: %s" % (len(progs), "+".join(parts)),
        "programs": len(progs), "parts": parts, "exhaustive": False,
        "samples": [{"script": render(p0)} for p0 in progs[:: max(1, len(progs) // 3)][:3]],
    }, assumptions=["bash 5.2.15 is the reference; a program counts only if bash reproduces the model's outcome", "diagnostics on stderr are ignored (only the probes' tags are compared)",
                    "descriptors above 9 and descriptors the shell keeps for itself with close-on-exec are not observed"])


def known(v, scr, key, exp, got, stderr=""):
    for f in v.findings:
        if f.get("status") == "known" and f.get("mode") == "class" and f.get("script_match") and re.search(f["script_match"], scr, re.S):
            if f.get("differs") and key not in f["differs"]:
                continue
            if f.get("stderr_match") and not re.search(f["stderr_match"], stderr) and not (f.get("or_output_missing") and (is_sub(got[key], exp[key]) or (len(got["rep"]) < len(exp["rep"]) and is_sub(got["rep"], exp["rep"])))):
                continue
            v.known(f["id"], f["what"][:110])
            return True
    return False


def is_sub(got, exp):
    """got is exp with parts missing (nothing added, nothing reordered)"""
    def subseq(a, b):
        it = iter(b)
        return all(x in it for x in a)
    if isinstance(exp, dict):
        return all(subseq(got.get(k) or "", exp.get(k) or "") for k in exp)
    return subseq(list(got), list(exp))


def replay(path):
    with open(path) as f:
        c = json.load(f)
    build_harness()
    r, rr = observe("brush", c["script"])
    got = r[c["differs"]]
    exp = c["expected"]
    norm = lambda x: json.loads(json.dumps(x))
    print("expected", exp, "observed", norm(got))
    if norm(got) != exp:
        print("VIOLATION property=%s replay=%s" % (PROP, path))
        return 1
    return 0
