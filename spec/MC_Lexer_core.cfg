\* C01: texts of <= 4 atoms over the core sub-alphabet (thorough: 5)
CONSTANTS
  MaxAtoms = 4
  MaxStack = 3
  AtomNames <- CoreNames
SPECIFICATION Spec
INVARIANTS StackBounded QuotesAreLeaves EmitInv
CHECK_DEADLOCK FALSE
