"""C06, second part - arrays, positional parameters, indirection and case transformations (spec/MC_ParamArr.tla on ParamOps.tla):
slices `${a[@]:o:l}` / `${@:o:l}`, `${#a[@]}`, `${!a[@]}`, `${#a[i]}`, scalar operators mapped over the elements
(`${a[@]#p}`, `${a[@]/p/r}`, `${a[@]^^}` ...), `${!v}` with its default / alternative forms, `${v@U}` `${v@u}` `${v@L}`."""
from .common import *
from .c08 import text, ansic


def model():
    d = tempfile.mkdtemp(prefix="parr-", dir=scratch())
    jobs = [("arr", k, 6) for k in range(6)] + [("ind", 0, 1), ("trans", 0, 1), ("adflt", 0, 1)]

    def one(j):
        fam, k, n = j
        cfg = os.path.join(d, "c%s%d.cfg" % (fam, k))
        with open(cfg, "w") as f:
            f.write('CONSTANTS Fam = "%s" Chunk = %d NChunks = %d\nINIT Init\nNEXT Next\nINVARIANT Emit\nCHECK_DEADLOCK FALSE\n' % (fam, k, n))
        r = run_tlc("MC_ParamArr", cfg, workers=1, want_lines=("ROW",), timeout=1800, xmx="3g")
        if not r["ok"]:
            raise ToolError("MC_ParamArr failed (%s/%d): %s\n%s" % (fam, k, r["violation"], r.get("full", "")[-1200:]))
        return r["lines"]["ROW"]
    rows = []
    for part in pmap(one, jobs, threads=8):
        rows += part
    shutil.rmtree(d, ignore_errors=True)
    return rows


def off(x):
    return (" %d" % x) if x < 0 else str(x)


def expr(row):
    from .c06 import expr as scalar_expr
    fam = row["fam"]
    if fam == "arr":
        op = row["op"]
        k = op["k"]
        return {"alen": "${#a[@]}", "akeys": "${!a[@]}", "aslice1": "${a[@]:%s}" % off(op["x"]), "aslice2": "${a[@]:%s:%s}" % (off(op["x"]), op["y"]),
                "pslice1": "${@:%s}" % off(op["x"]), "pslice2": "${@:%s:%s}" % (off(op["x"]), op["y"]), "aelen": "${#a[%d]}" % op["x"]}[k]
    if fam == "amap":
        return scalar_expr(row["op"]).replace("${v", "${a[@]", 1)
    if fam == "adflt":
        sub = {"at": "@", "star": "*"}[row["form"]]
        name = ("a[%s]" % sub) if row["tgt"] == "arr" else sub
        return "${%s%sW}" % (name, {"dflt": "-", "dfltC": ":-", "alt": "+", "altC": ":+"}[row["k"]])
    if fam == "ind":
        return {"ind": "${!v}", "inddflt": "${!v:-W}", "indalt": "${!v:+W}"}[row["k"]]
    return {"tU": "${v@U}", "tu": "${v@u}", "tL": "${v@L}"}[row["k"]]


def setup(row):
    if row["fam"] in ("arr", "amap", "adflt"):
        els = " ".join(ansic(text(e)) for e in row["a"])
        return "a=(%s); set -- %s" % (els, els)
    if row["fam"] == "ind":
        return "t='a b'; e=; unset u; " + ("unset v" if row["t"] == "unsetv" else "v=%s" % row["t"])
    return "v=%s" % ansic(text(row["v"]))


def val_text(v):
    if v and v[0] == "N":
        return str(v[1])
    return text(v)


def expected(row):
    if row["st"] == "err":
        return "ERR"
    if row["fam"] in ("arr", "amap", "adflt"):
        return [("s.sh" if x == ["Z"] else val_text(x)) for x in row["val"]]
    return [val_text(row["val"])]


def parse(out):
    f = out.split("\0")
    res, i = {}, 0
    while i < len(f):
        m = re.match(r"^R(\d+)$", f[i])
        if m and i + 1 < len(f):
            idx = int(m.group(1))
            if f[i + 1] == "ERR":
                res[idx] = "ERR"
                i += 2
            elif re.match(r"^\d+$", f[i + 1]) and i + 1 + int(f[i + 1]) < len(f):
                n = int(f[i + 1])
                res[idx] = f[i + 2:i + 2 + n]
                i += 2 + n
            else:
                i += 1
        else:
            i += 1
    return res


def run_part(v, tier):
    rows = model()
    rows.sort(key=lambda r: json.dumps(r, sort_keys=True))
    groups = {}
    for r in rows:
        groups.setdefault(setup(r), []).append(r)

    def one(item):
        st, g = item
        L = ["F() { printf '%s\\0' \"$#\" \"$@\"; }", st]
        for i, r in enumerate(g):
            L.append("( printf 'R%d\\0'; F \"%s\" ) 2>/dev/null || printf '%%s\\0' R%d ERR" % (i, expr(r), i))
        scr = "\n".join(L) + "\n"
        return g, scr, run_script("bash", scr, front="file", timeout=120), run_script("brush", scr, front="file", timeout=180)
    n = 0
    for g, scr, b, r in pmap(one, sorted(groups.items())):
        if crashed(r) or r["timeout"]:
            v.violation("b-crash:" + scr[:100], {"kind": "crash or hang", "part": "b", "script": scr[:1500], "stderr": r["err"][-300:]})
            continue
        pb, pr = parse(b["out"]), parse(r["out"])
        for i, row in enumerate(g):
            n += 1
            exp = expected(row)
            # a failed expansion prints the marker and then ERR: the marker's own record is then the bare ERR
            gb, gr = pb.get(i), pr.get(i)
            if gb != exp:
                v.audit_miss({"part": "b", "setup": setup(row), "expr": expr(row), "model": exp, "bash": gb})
                continue
            if gr != exp:
                v.violation("b|%s|%s" % (setup(row), expr(row)), {"kind": "expansion result differs", "part": "b", "setup": setup(row), "expr": expr(row), "expected": exp, "observed": gr})
    return n, len(rows)
