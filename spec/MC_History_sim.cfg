\* C20 replay generation by simulation: histories of 12 operations, two sessions, all kinds
CONSTANTS
  Sessions = {1, 2}
  MaxOps = 12
  Kinds = {"a", "pad", "hash", "num", "empty"}
  DEV = {}
  Emit = TRUE
SPECIFICATION Spec
INVARIANTS EmitInv NoDup SavedPresent InOrder TsAttached ReloadEq
CHECK_DEADLOCK FALSE
