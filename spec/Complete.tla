------------------------------- MODULE Complete -------------------------------
(* When is the text read so far a complete command? (C15, second part): brush-interactive/src/completeness.rs
   (needs_more_input: incomplete-vs-invalid classification of tokenizer and parser errors) and the readers that use it.

   Input arrives line by line.  A LINE has an effect on a stack of open constructs (innermost last) and may leave the
   command pending (trailing backslash, && or |).  A line is offered only where the reader would take it the way its
   effect says, so every reachable sequence of lines is a valid PREFIX of some program.
       NeedsMore  ==  stack # <<>>  \/  pend
   The shell must run what it has read exactly when NeedsMore is false.                                           *)
EXTENDS Naturals, Sequences, FiniteSets, TLC

CONSTANTS MaxLines, MaxStack

VARIABLES lines, stack, pend, fresh          \* fresh: the command list being read has no command yet (a body may not be empty)
vars == <<lines, stack, pend, fresh>>

Code == {"TOP", "THEN", "DO", "BRACE", "PAREN", "ARM", "CS"}            \* modes in which commands are read
Top == IF stack = <<>> THEN "TOP" ELSE stack[Len(stack)]
\* L(name, text, where, push, pop, repl, pend): where = modes in which it is offered; pop = mode it closes ("" none);
\* repl = mode that replaces the top ("" none); push = mode opened ("" none)
L(n, s, w, push, pop, repl, p) == [n |-> n, s |-> s, w |-> w, push |-> push, pop |-> pop, repl |-> repl, p |-> p]
Lines == {
  L("cmd", "echo a", Code, "", "", "", FALSE), L("cmdbs", "echo a \\", Code, "", "", "", TRUE), L("cmdand", "echo a &&", Code, "", "", "", TRUE), L("cmdpipe", "echo a |", Code, "", "", "", TRUE),
  L("cmdor", "false ||", Code, "", "", "", TRUE), L("comment", "# c", Code, "", "", "", FALSE), L("blank", "", Code, "", "", "", FALSE), L("semi", "echo a; echo b", Code, "", "", "", FALSE), L("amp", "true &", Code, "", "", "", FALSE),
  L("if", "if true; then", Code, "THEN", "", "", FALSE), L("ifc", "if true", Code, "IFC", "", "", FALSE), L("then", "then", {"IFC"}, "", "", "THEN", FALSE), L("else", "else", {"THEN"}, "", "", "", FALSE), L("fi", "fi", {"THEN"}, "", "THEN", "", FALSE),
  L("for", "for i in 1; do", Code, "DO", "", "", FALSE), L("while", "while false", Code, "LOOP", "", "", FALSE), L("do", "do", {"LOOP"}, "", "", "DO", FALSE), L("done", "done", {"DO"}, "", "DO", "", FALSE),
  L("lb", "{", Code, "BRACE", "", "", FALSE), L("rb", "}", {"BRACE"}, "", "BRACE", "", FALSE), L("lp", "(", Code, "PAREN", "", "", FALSE), L("rp", ")", {"PAREN"}, "", "PAREN", "", FALSE),
  L("fn", "f() {", Code, "BRACE", "", "", FALSE), L("fnnl", "f()", Code, "FN", "", "", FALSE), L("fnlb", "{", {"FN"}, "", "", "BRACE", FALSE),
  L("case", "case x in", Code, "CASE", "", "", FALSE), L("arm", "x)", {"CASE"}, "ARM", "", "", FALSE), L("dsemi", ";;", {"ARM"}, "", "ARM", "", FALSE), L("esac", "esac", {"CASE"}, "", "CASE", "", FALSE),
  L("sqo", "echo 'open", Code, "SQ", "", "", FALSE), L("sqc", "close'", {"SQ"}, "", "SQ", "", FALSE), L("dqo", "echo \"open", Code, "DQ", "", "", FALSE), L("dqc", "close\"", {"DQ"}, "", "DQ", "", FALSE),
  L("sqcbs", "close' \\", {"SQ"}, "", "SQ", "", TRUE), L("dqcbs", "close\" \\", {"DQ"}, "", "DQ", "", TRUE), L("sqcand", "close' &&", {"SQ"}, "", "SQ", "", TRUE), L("cscpipe", ") |", {"CS"}, "", "CS", "", TRUE),
  L("mid", "mid $x", {"SQ", "DQ", "HERE"}, "", "", "", FALSE), L("midbs", "mid \\", {"SQ", "HERE"}, "", "", "", FALSE), L("midblank", "", {"SQ", "DQ", "HERE"}, "", "", "", FALSE),
  L("hd", "cat <<E", Code, "HERE", "", "", FALSE), L("hdq", "cat <<'E'", Code, "HERE", "", "", FALSE), L("hdend", "E", {"HERE"}, "", "HERE", "", FALSE), L("hdnot", " E", {"HERE"}, "", "", "", FALSE),
  L("cso", "echo $(", Code, "CS", "", "", FALSE), L("csc", ")", {"CS"}, "", "CS", "", FALSE), L("peo", "echo ${x:-", Code, "PE", "", "", FALSE), L("pec", "}", {"PE"}, "", "PE", "", FALSE), L("pemid", "w", {"PE"}, "", "", "", FALSE),
  L("arro", "x=(1", Code, "ARR", "", "", FALSE), L("arrc", "2)", {"ARR"}, "", "ARR", "", FALSE), L("aro", "echo $((1 +", Code, "AR", "", "", FALSE), L("arc", "2))", {"AR"}, "", "AR", "", FALSE),
  L("bqo", "echo `echo", Code, "BQ", "", "", FALSE), L("bqc", "x`", {"BQ"}, "", "BQ", "", FALSE),
  \* second generation: until / elif, [[ ]] and (( )) commands, function with a subshell body, <<- documents, two documents on one line
  L("until", "until true", Code, "LOOP", "", "", FALSE), L("elif", "elif false; then", {"THEN"}, "", "", "", FALSE), L("elifc", "elif false", {"THEN"}, "", "", "IFC", FALSE),
  L("condo", "[[ a == a &&", Code, "COND", "", "", FALSE), L("condc", "b == b ]]", {"COND"}, "", "COND", "", FALSE), L("arco", "(( 1 +", Code, "ARC", "", "", FALSE), L("arcc", "2 ))", {"ARC"}, "", "ARC", "", FALSE),
  L("fnp", "f() (", Code, "PAREN", "", "", FALSE), L("hdd", "cat <<-E", Code, "HERED", "", "", FALSE), L("hddend", "\tE", {"HERED"}, "", "HERED", "", FALSE), L("hddnot", " E", {"HERED"}, "", "", "", FALSE),
  L("hd2", "cat <<E; cat <<F", Code, "HERE2", "", "", FALSE), L("hd2e", "E", {"HERE2"}, "", "", "HEREF", FALSE), L("hd2f", "F", {"HEREF"}, "", "HEREF", "", FALSE), L("hd2not", "F", {"HERE2"}, "", "", "", FALSE),
  L("midh", "mid $x", {"HERED", "HERE2", "HEREF"}, "", "", "", FALSE), L("rbpipe", "} |", {"BRACE"}, "", "BRACE", "", TRUE), L("doneand", "done &&", {"DO"}, "", "DO", "", TRUE), L("fiamp", "fi &", {"THEN"}, "", "THEN", "", FALSE) }

\* after a pending line (backslash, && , | , ||) only a plain command continues it
Openers == {"then", "else", "elif", "do", "fnlb"}                 \* lines after which a new (still empty) command list starts
NeedBody == {"fi", "fiamp", "else", "elif", "elifc", "done", "doneand", "rb", "rbpipe", "rp"}    \* lines that end a list which may not be empty
Offered(l) == /\ Top \in l.w
              /\ (pend => l.n \in {"cmd", "cmdbs", "cmdand", "cmdpipe", "semi"})
              /\ (l.push # "" => Len(stack) < MaxStack)
              /\ (l.n \in NeedBody => ~fresh)
Take(l) == /\ Offered(l) /\ Len(lines) < MaxLines
           /\ lines' = Append(lines, l.n)
           /\ pend' = l.p
           /\ fresh' = IF l.push \in Code \/ l.n \in Openers THEN TRUE
                       ELSE IF l.n \in {"comment", "blank"} \/ Top \notin Code THEN fresh
                       ELSE FALSE
           /\ stack' = LET s1 == IF l.pop # "" \/ l.repl # "" THEN SubSeq(stack, 1, Len(stack) - 1) ELSE stack
                           s2 == IF l.repl # "" THEN Append(s1, l.repl) ELSE s1 IN
                       IF l.push # "" THEN Append(s2, l.push) ELSE s2
Init == lines = <<>> /\ stack = <<>> /\ pend = FALSE /\ fresh = TRUE
Next == \E l \in Lines : Take(l)
Spec == Init /\ [][Next]_vars

NeedsMore == stack # <<>> \/ pend
\* sanity of the machine
StackBounded == Len(stack) <= MaxStack
LeavesAreLeaves == \A i \in 1..Len(stack) : stack[i] \in {"SQ", "DQ", "HERE", "HERED", "HERE2", "HEREF", "PE", "ARR", "AR", "BQ", "COND", "ARC"} => i = Len(stack)
=============================================================================
