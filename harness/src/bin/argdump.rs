//! `argdump args...`: prints argc then each argument hex-encoded, one per line (exact argv bytes).
use std::io::Write;
use std::os::unix::ffi::OsStrExt;
fn main() {
    let args: Vec<std::ffi::OsString> = std::env::args_os().skip(1).collect();
    let mut out = std::io::stdout().lock();
    let mut s = format!("A{}", args.len());
    for a in &args {
        s.push(' ');
        s.push('h');
        for b in a.as_bytes() {
            s.push_str(&format!("{b:02x}"));
        }
    }
    let _ = writeln!(out, "{s}");
}
