------------------------------- MODULE Printer -------------------------------
(* Printing function definitions (C14): brush-parser/src/ast.rs (Display for every node), brush-builtins declare -f / type,
   brush-core/src/commands.rs (BASH_FUNC_name%% export), shell/funcs.rs (import).

   The round trip is a protocol over a definition d:
       text1 = Render(d);  d2 = Parse(text1);  text2 = Render(d2)
   FixedPoint   text2 = text1            SameTree   d2 = d      (so running d2 is running d)
   The printer is modelled at TOKEN level for the part of the grammar where separation matters: a command is a sequence
   of words followed by a redirection list; compound commands close with a keyword followed by their redirection list.
   Print emits tokens with the separators the real printer uses; Lex re-reads the character stream.  The printer is sound
   iff Lex(Chars(Render(d))) = Render(d) for every d, i.e. no two tokens fuse and no token splits.
   DEV GluedRedirects: the as-found printer wrote a redirection list as  KEYWORD ">" " " target FD ">&" " " FD  with no blank
   before the operator and none between a target and the next descriptor number (`done> /dev/null2>& 1`).          *)
EXTENDS Naturals, Sequences, FiniteSets, TLC

CONSTANTS DEV

\* tokens are strings; a redirection r = [fd, op, target]; fd = "" when omitted
Redir(fd, op, target) == [fd |-> fd, op |-> op, target |-> target]
\* the character stream: sequence of strings, each a token or a separator " "
RECURSIVE PrintRedirs(_)
PrintRedirs(rs) ==
  IF rs = <<>> THEN <<>>
  ELSE LET r == rs[1] IN
       (IF "GluedRedirects" \in DEV
        THEN (IF r.fd = "" THEN <<>> ELSE <<r.fd>>) \o <<r.op, " ", r.target>>                                   \* no blank before, none after
        ELSE <<" ">> \o (IF r.fd = "" THEN <<>> ELSE <<r.fd>>) \o <<r.op>> \o <<r.target>>)                        \* " 2>&1": blank before, operator glued to its operands
       \o PrintRedirs(Tail(rs))
RECURSIVE PrintWords(_)
PrintWords(ws) == IF ws = <<>> THEN <<>> ELSE (IF Len(ws) = 1 THEN <<ws[1]>> ELSE <<ws[1], " ">> \o PrintWords(Tail(ws)))
\* d = [kind, words, redirs]: kind "simple" (words redirs) or "loop" (`while w; do w; done` redirs)
Render(d) == IF d.kind = "simple" THEN PrintWords(d.words) \o PrintRedirs(d.redirs)
            ELSE <<"while", " ">> \o PrintWords(d.words) \o <<";", " ", "do", " ">> \o PrintWords(d.words) \o <<";", " ", "done">> \o PrintRedirs(d.redirs)

\* ---- reading the stream back: characters of adjacent non-blank pieces fuse into one word-ish run; a run is then split
\* the way the shell's tokenizer does: digits immediately before an operator are its descriptor, an operator ends a word
IsOp(s) == s \in {">", ">>", "<", ">&", "<&", "2>", ">|"}
IsDigits(s) == s \in {"0", "1", "2", "3", "5"}
RECURSIVE Runs(_, _)
Runs(stream, cur) == IF stream = <<>> THEN (IF cur = <<>> THEN <<>> ELSE <<cur>>)
                     ELSE IF stream[1] \in {" ", ";"} THEN (IF cur = <<>> THEN <<>> ELSE <<cur>>) \o Runs(Tail(stream), <<>>)      \* (`;` delimits by itself)
                     ELSE Runs(Tail(stream), Append(cur, stream[1]))
\* a run r1 r2 .. is read as: a redirection needs [digits] op target; a plain word directly followed by digits+op fuses with the digits
\* (`null2>&` reads the word "null2" then ">&"): the reading equals the intended pieces iff no word/keyword is directly followed, in
\* the same run, by anything, and no target is directly followed by a descriptor or operator
RunOK(run) == \/ Len(run) = 1
              \/ (Len(run) = 2 /\ IsOp(run[1]) /\ ~IsOp(run[2]))                                     \* >target
              \/ (Len(run) = 3 /\ IsDigits(run[1]) /\ IsOp(run[2]) /\ ~IsOp(run[3]))                 \* 2>target  2>&1
Sound(d) == \A i \in 1..Len(Runs(Render(d), <<>>)) : RunOK(Runs(Render(d), <<>>)[i])

\* ---- the protocol, over abstract Print / Parse of the implementation (conformance relations; checked on real runs by the driver)
FixedPoint(text1, text2) == text2 = text1
SameBehaviour(out1, out2) == out2 = out1
=============================================================================
