\* C20 exhaustive: all histories of <= 7 operations, 2 sessions, ideal model
CONSTANTS
  Sessions = {1, 2}
  MaxOps = 7
  Kinds = {"a", "hash", "num"}
  WithWrite = FALSE
  Emit = FALSE
SPECIFICATION Spec
INVARIANTS NoDup SavedPresent InOrder TsAttached ReloadEq TypeOK
PROPERTY SaveIdemAct
CHECK_DEADLOCK FALSE
