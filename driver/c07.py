"""C07 - arithmetic evaluates as bash's wrapping 64-bit C-style integer arithmetic (spec/Arith.tla over Word64.tla).

TLC parses and evaluates every token sequence of the families in MC_Arith.tla; the driver renders each with minimal
spacing, wide spacing and full parenthesisation (the model's own tree), runs it in bash (audit) and brush in `$(( ))`,
and - for a stratified subset - in `(( ))`, `let`, an array subscript, a substring offset and an integer-attribute
assignment, comparing value, status and the variables afterwards."""
import random
from .common import *

PROP = "C07"
FAMS = ["bin", "flat3", "flat4", "un", "asg", "inc", "cond", "rec", "err", "tree"]
DIG = "0123456789abcdefghijklmnopqrstuvwxyzABCDEFGHIJKLMNOPQRSTUVWXYZ@_"
SETUP = {1: "x=5", 2: "x=-9223372036854775808", 3: "unset x", 4: "x=-1"}
SETUP_REST = "unset y; z='x+1'; w='z*2'; e=; v=y; bad='1 +'; cyc='cyc+1'; oc=010; hx=0x1F; ng=-017"


def sval(b):
    return int.from_bytes(bytes(b), "little", signed=True)


def tok_text(t, upper=False):
    if t["t"] == "num":
        base, ds = t["v"]["base"], t["v"]["ds"]
        if base == 10:
            return "".join(str(d) for d in ds)
        if base == 8:
            return "0" + "".join(str(d) for d in ds)
        if base == 16:
            s = "".join(DIG[d] for d in ds)
            return ("0X" + s.upper()) if upper else ("0x" + s)
        s = "".join(DIG[d] for d in ds)
        return "%d#%s" % (base, s.upper() if (upper and base <= 36) else s)
    if t["t"] == "numw":
        return str(int.from_bytes(bytes(t["v"]), "little", signed=False))
    if t["t"] in ("(", ")"):
        return t["t"]
    return t["v"]


def render(toks, mode):
    parts = [tok_text(t, upper=(mode == "wide")) for t in toks]
    if mode == "wide":
        return "  " + " \t ".join(parts) + " " if parts else " "
    out = ""
    for i, p in enumerate(parts):
        if i and needs_space(toks[i - 1], toks[i]):
            out += " "
        out += p
    return out


def needs_space(a, b):
    wordish = ("num", "numw", "id")
    if a["t"] in wordish and b["t"] in wordish:
        return True
    if a["t"] == "op" and b["t"] == "op":
        return True
    return False


def model(tier):
    d = tempfile.mkdtemp(prefix="arith-", dir=scratch())
    cfg = os.path.join(d, "m.cfg")
    stride, phase = (3000, 0) if tier == "quick" else (40000, SEED % 4)
    with open(cfg, "w") as f:
        f.write("CONSTANTS Fams = {%s} NChunks = 14 Stride = %d Phase = %d\nINIT Init\nNEXT Next\nINVARIANT Emit\nCHECK_DEADLOCK FALSE\n" % (", ".join('"%s"' % x for x in FAMS), stride, phase))
    r = run_tlc("MC_Arith", cfg, workers=14, want_lines=("ROW",), timeout=3000, xmx="12g")
    shutil.rmtree(d, ignore_errors=True)
    if not r["ok"]:
        raise ToolError("MC_Arith failed: %s\n%s" % (r["violation"], r.get("full", "")[-1500:]))
    return r["lines"]["ROW"], r["distinct"]


def var_exp(v, init):
    if v["k"] == "unset":
        return "U"
    if v["k"] == "same":
        return init
    return str(sval(v["w"]))


def expected(row):
    """(status, value, x, y, z) as the probes print them"""
    x0 = {1: "5", 2: "-9223372036854775808", 3: "U", 4: "-1"}[row["xk"]]
    return {"st": row["st"], "val": str(sval(row["val"])), "x": var_exp(row["x"], x0), "y": var_exp(row["y"], "U"), "z": var_exp(row["z"], "x+1")}


def probe_lines(i, row, texts, contexts):
    setup = SETUP[row["xk"]] + "; " + SETUP_REST
    L = []
    for m, ex in texts.items():
        L.append("( %s; r=$((%s)); T R%d_%s ok \"$r\" \"${x-U}\" \"${y-U}\" \"${z-U}\" ) 2>/dev/null || T R%d_%s err" % (setup, ex, i, m, i, m))
    ex = texts["min"]
    if "paren" in contexts:
        L.append("( %s; ((%s)); T R%d_paren \"$?\" \"${x-U}\" \"${y-U}\" \"${z-U}\" ) 2>/dev/null" % (setup, ex, i))
    if "let" in contexts:
        L.append("( %s; let '%s'; T R%d_let \"$?\" \"${x-U}\" \"${y-U}\" \"${z-U}\" ) 2>/dev/null" % (setup, ex, i))
    if "sub" in contexts:
        L.append("( %s; a=(p0 p1 p2 p3 p4 p5 p6 p7); T R%d_sub \"${a[%s]}\" \"${x-U}\" ) 2>/dev/null || T R%d_sub err" % (setup, i, ex, i))
        L.append("( %s; s=abcdefgh; T R%d_off \"${s:%s}\" \"${x-U}\" ) 2>/dev/null || T R%d_off err" % (setup, i, ex.replace("?", " ? ").replace(":", " : "), i))
    if "int" in contexts:
        L.append("( %s; declare -i iv; iv='%s'; T R%d_int \"$iv\" \"${x-U}\" ) 2>/dev/null || T R%d_int err" % (setup, ex, i, i))
    return L


def parse(out):
    f = out.split("\0")
    if f and f[-1] == "":
        f.pop()
    res, i, cur = {}, 0, None
    for x in f:
        m = re.match(r"^R(\d+)_(\w+)$", x)
        if m:
            cur = (int(m.group(1)), m.group(2))
            res[cur] = []
        elif cur is not None:
            res[cur].append(x)
    return res


def run(tier):
    v = Verdict(PROP, tier, "model_checking")
    build_harness()
    rows, states = model(tier)
    rows.sort(key=lambda r: json.dumps(r["toks"]) + str(r["xk"]))
    rnd = random.Random(SEED)
    jobs = []
    for k in range(0, len(rows), 250):
        jobs.append(rows[k:k + 250])

    def plan(row, idx):
        texts = {"min": render(row["toks"], "min"), "wide": render(row["toks"], "wide")}
        if row["full"]:
            texts["full"] = render(row["full"], "min")
        ctx = set()
        h = int(hashlib.sha1((texts["min"] + str(row["xk"])).encode()).hexdigest()[:6], 16)
        if h % 3 == 0:
            ctx.add("paren")
        if h % 3 == 1 and "'" not in texts["min"]:
            ctx.add("let")
        val = sval(row["val"])
        if row["st"] == "ok" and not row["und"] and 0 <= val <= 7 and h % 2 == 0 and row["fam"] != "err":
            ctx.add("sub")
        if h % 5 == 0 and row["fam"] != "err":
            ctx.add("int")
        return texts, ctx

    HEAD = "T() { printf '%s\\0' \"$@\"; }"

    def run_rows(shell, group, plans, start=0, depth=0):
        """runs rows start.. in one process; a row whose probes are not all answered stopped the shell: it is reported as
        such and the rows after it are run in a fresh process"""
        L = [HEAD]
        want = {}
        for i in range(start, len(group)):
            lines = probe_lines(i, group[i], *plans[i])
            # each probe is parsed on its own (eval): a probe the shell cannot even parse must not take the others with it
            L += ["eval '%s'" % l.replace("'", "'\\''") for l in lines]
            want[i] = [re.search(r"T R(\d+)_(\w+)", l).group(2) for l in lines]
        r = run_script(shell, "\n".join(L) + "\n", front="file", timeout=600)
        got = parse(r["out"])
        for i in range(start, len(group)):
            if any((i, m) not in got for m in want[i]):
                got[("died", i)] = {"rc": r["rc"], "stderr": r["err"][-300:], "panic": r["panic"], "timeout": r["timeout"], "signal": r["signal"]}
                if depth < 60 and i + 1 < len(group):
                    got.update(run_rows(shell, group, plans, i + 1, depth + 1))
                break
        return got

    def one(group):
        plans = [plan(row, i) for i, row in enumerate(group)]
        return group, plans, run_rows("bash", group, plans), run_rows("brush", group, plans)
    evals = nontrivial = 0
    for group, plans, pb, pr in pmap(one, jobs):
        for i, row in enumerate(group):
            texts, ctx = plans[i]
            e = expected(row)
            if row["und"]:
                continue
            probes = {}
            for m in texts:
                probes[m] = ["ok", e["val"], e["x"], e["y"], e["z"]] if e["st"] == "ok" else ["err"]
            status = ("0" if e["val"] != "0" else "1") if e["st"] == "ok" else "1"
            if "paren" in ctx:
                probes["paren"] = [status, e["x"], e["y"], e["z"]]
            if "let" in ctx:
                probes["let"] = [status, e["x"], e["y"], e["z"]]
            if "sub" in ctx:
                probes["sub"] = ["p" + e["val"], e["x"]]
                probes["off"] = ["abcdefgh"[int(e["val"]):], e["x"]]
            if "int" in ctx:
                probes["int"] = [e["val"], e["x"]] if e["st"] == "ok" else None
            for m, exp in probes.items():
                evals += 1
                got_b, got_r = pb.get((i, m)), pr.get((i, m))
                if exp is None:
                    exp = got_b              # error inside an integer-attribute assignment: bash's own outcome is the reference
                if got_b != exp:
                    v.audit_miss({"expr": texts.get(m, texts["min"]), "probe": m, "xk": row["xk"], "model": exp, "bash": got_b})
                    continue
                nontrivial += 1
                if got_r is None and ("died", i) in pr:
                    got_r = "shell stopped: %s" % json.dumps(pr[("died", i)])
                if got_r != exp:
                    if known(v, row, m, texts):
                        continue
                    v.violation("%s|%s|%d" % (texts.get(m, texts["min"]), m, row["xk"]), {"kind": "arithmetic result differs", "expr": texts.get(m, texts["min"]), "probe": m, "setup": SETUP[row["xk"]] + "; " + SETUP_REST,
                                                                                       "expected": exp, "observed": got_r, "fam": row["fam"], "line": [l for l in probe_lines(0, row, texts, ctx) if "R0_%s " % m in l][:1]})
    if v.audit_disagreements > 0.03 * max(1, evals):
        raise ToolError("model/bash disagreement rate too high: %d of %d" % (v.audit_disagreements, evals))
    return v.finish({
        "states": states, "transitions": len(rows), "traces_validated_against_impl": evals, "evaluations": evals, "distinct_nontrivial": nontrivial,
        "rule": "token sequences of the families of MC_Arith.tla: A op B for all 20 binary operators x 28 x 28 operands (0, +-1, small, 63, 64, 2^31, i64::MAX, i64::MIN, 2^63 and 2^64-1 and 10^20-1 as wrapping "
                "literals, hex / octal / base#digits forms up to base 64, variables set / unset / empty / holding expressions); A op1 B op2 C (all 400 operator pairs) and a 4-operand chain (8000 triples) without parentheses; "
                "unary x binary mixes; 11 assignment operators x operands x 4 initial values, chained; ++/-- forms combined under 8 operators; nested conditionals and short-circuit with side effects; recursive variable "
                "contents; 40 malformed or erroring expressions; %d strided depth-3 trees.  Each is parsed and evaluated by Arith.tla in TLC, rendered with minimal spacing, wide spacing / upper-case digits, and the model's full "
                "parenthesisation, and run in $(( )) plus a stratified subset in (( )), let, ${a[..]}, ${s:..}, declare -i; value, status and x y z afterwards compared" % (3000 if tier == "quick" else 40000),
        "expressions": len(rows), "exhaustive": False,
        "samples": [{"expr": render(r0["toks"], "min"), "value": str(sval(r0["val"])), "status": r0["st"]} for r0 in rows[:: max(1, len(rows) // 3)][:3]],
    }, assumptions=["bash 5.2.15 is the reference; an (expression, probe) pair counts only if bash reproduces the model", "shift counts outside 0..63 are C-undefined and not judged"])


def known(v, row, m, texts):
    for f in v.findings:
        if f.get("status") != "known" or f.get("mode") != "class":
            continue
        if f.get("probes") and m not in f["probes"]:
            continue
        if f.get("expr_match") and not re.search(f["expr_match"], texts["min"]):
            continue
        if f.get("status_is") and row["st"] != f["status_is"]:
            continue
        v.known(f["id"], f["what"][:110])
        return True
    return False


def replay(path):
    with open(path) as f:
        c = json.load(f)
    build_harness()
    scr = "T() { printf '%s\\0' \"$@\"; }\n" + "\n".join(c["line"]) + "\n"
    r = run_script("brush", scr, front="file", timeout=60)
    got = list(parse(r["out"]).values())
    print("expected", c["expected"], "observed", got)
    if not got or got[0] != c["expected"]:
        print("VIOLATION property=%s replay=%s" % (PROP, path))
        return 1
    return 0
