"""C10 part (b) - here-document bodies arrive byte-exact (spec/HereDoc.tla, MC_HereDoc.tla).

Every sequence of <= 2 (thorough 3) lines from a 25-line alphabet (the delimiter itself, with blanks around it, doubled,
behind tabs, escaped; $x \\$x \\\\ trailing backslash, quotes, command substitutions, empty line ...) x the four delimiter
forms; the body Body(form, lines) of the model must be what `cat` receives, in eight syntactic placements of the
document (plain, redirection order swapped, in a function, in a command substitution, second of two documents on one
line, in a pipeline, on descriptor 3 of a brace group, after another document of the other form opened on the same line)."""
import random
from .common import *

CH = {"TAB": "\t", "NL": "\n"}


def txt(seq):
    return "".join(CH.get(c, c) for c in seq)


def model(maxlines):
    d = tempfile.mkdtemp(prefix="hd-", dir=scratch())
    cfg = os.path.join(d, "m.cfg")
    with open(cfg, "w") as f:
        f.write("CONSTANTS MaxLines = %d NChunks = 12\nINIT Init\nNEXT Next\nINVARIANT Emit\nCHECK_DEADLOCK FALSE\n" % maxlines)
    r = run_tlc("MC_HereDoc", cfg, workers=12, want_lines=("DOC",), timeout=3000, xmx="8g")
    shutil.rmtree(d, ignore_errors=True)
    if not r["ok"] or r.get("notes"):
        raise ToolError("MC_HereDoc failed: %s %s\n%s" % (r["violation"], (r.get("notes") or [])[:2], r.get("full", "")[-1500:]))
    return r["lines"]["DOC"]


def opener(form, h):
    if form == "plain":
        return "<<E"
    if form == "dash":
        return "<<-E"
    if form == "quoted":
        return ["<<'E'", "<<\\E", '<<"E"'][h % 3]
    return ["<<-'E'", "<<-\\E"][h % 2]


CONTEXTS = ["plain", "swapped", "func", "cs", "second", "pipe", "fd3", "pair"]


def script(doc, ctx, h):
    op = opener(doc["form"], h)
    lines = "".join(txt(l) + "\n" for l in doc["lines"])
    closed = doc["term"] and not doc["after"]
    if ctx == "plain":
        return "x=V\ncat %s >../body\n%s" % (op, lines)
    if ctx == "swapped":
        return "x=V\n>../body cat %s\n%s" % (op, lines)
    if ctx == "second":
        return "x=V\ncat <<F %s >../body\nfirst $x\nF\n%s" % (op, lines)
    if ctx == "pair":
        # two documents of (possibly) different forms opened on one line, both read: the first has a tab-led line of its own
        if h % 2:
            return "x=V\n{ cat <&3; cat; } 3<<-F %s >../body\n\tt1 $x\nm\n\tF\n%s" % (op, lines)
        return "x=V\n{ cat <&3; cat; } 3<<F %s >../body\n\tt1 $x\nm\nF\n%s" % (op, lines)
    if ctx == "pipe":
        return "x=V\ncat %s | cat >../body\n%s" % (op, lines)
    if ctx == "fd3":
        return "x=V\n{ cat <&3; } 3%s >../body\n%s" % (op, lines)
    if not closed:
        return None
    if ctx == "func":
        return "x=V\nf() {\ncat %s\n%s}\nf >../body\n" % (op, lines)
    if ctx == "cs":
        return "x=V\ny=$(cat %s\n%s)\nprintf '%%s' \"$y\" >../body\n" % (op, lines)
    raise ValueError(ctx)


def observe(shell, scr):
    r = run_script(shell, "cd w || exit 9\n" + scr, front="file", stdin_data=b"", timeout=30, files={"w/.keep": ""}, keep=True)
    p = os.path.join(r["dir"], "body")
    body = open(p, "rb").read().decode("utf-8", "replace") if os.path.exists(p) else None
    shutil.rmtree(r["dir"], ignore_errors=True)
    return body, r


def run_part(v, tier):
    docs = model(2 if tier == "quick" else 3)
    docs.sort(key=lambda d: json.dumps([d["form"], d["lines"]]))
    rnd = random.Random(SEED)
    jobs = []
    seen = set()
    for d in docs:
        key = json.dumps([d["form"], d["lines"]])
        if key in seen:
            continue
        seen.add(key)
        if not d["term"] and rnd.random() > 0.08:
            continue                       # documents that run to the end of the input: a sample is enough (one recorded finding covers them)
        h = int(hashlib.sha1(json.dumps([d["form"], d["lines"]]).encode()).hexdigest()[:6], 16)
        ctxs = CONTEXTS if tier != "quick" or len(d["lines"]) < 2 else [CONTEXTS[h % 8], CONTEXTS[(h // 8) % 8]]
        if tier != "quick" and len(d["lines"]) >= 3:
            # the long documents are 190 k: one placement each, and every sixth of them (by hash), is what finishes in minutes
            if (h // 64) % 6:
                continue
            ctxs = [CONTEXTS[h % 8]]
        for ctx in dict.fromkeys(ctxs):
            scr = script(d, ctx, h)
            if scr is not None:
                jobs.append((d, ctx, scr))

    def one(job):
        d, ctx, scr = job
        b, rb = observe("bash", scr)
        r, rr = observe("brush", scr)
        return job, b, r, rr
    n = 0
    for (d, ctx, scr), b, r, rr in pmap(one, jobs):
        n += 1
        exp = txt(d["body"])
        if ctx == "pair":
            exp = ("t1 V\nm\n" if "3<<-F" in scr else "\tt1 V\nm\n") + exp
        if ctx == "cs":
            exp = exp.rstrip("\n")
        if crashed(rr) or rr["timeout"]:
            v.violation("hd-crash:" + scr, {"kind": "crash or hang", "script": scr, "stderr": rr["err"][-300:], "part": "b"})
            continue
        if b != exp:
            v.audit_miss({"part": "b", "script": scr, "model": exp, "bash": b})
            continue
        if r != exp:
            if known_b(v, d, ctx, scr):
                continue
            v.violation("hd:" + scr, {"kind": "here-document body differs", "part": "b", "script": scr, "form": d["form"], "context": ctx, "expected": exp, "observed": r, "stderr": rr["err"][-300:]})
    return n


def known_b(v, d, ctx, scr):
    for f in v.findings:
        if f.get("status") == "known" and f.get("mode") == "class" and f.get("part") == "b":
            if f.get("contexts") and ctx not in f["contexts"]:
                continue
            if f.get("unterminated") and d["term"]:
                continue
            if f.get("script_match") and not re.search(f["script_match"], scr, re.S):
                continue
            v.known(f["id"], f["what"][:110])
            return True
    return False
