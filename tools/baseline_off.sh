#!/bin/bash
# Runs the repository's baseline test command with the hook guard OFF and compares with
# /root/.vp/BASELINE.json stable_pass. Exit 0 iff every stable_pass test passed.
set -u
REPO=${VERIF_REPO:-/repo}
cd "$REPO" || exit 2
unset RUSTFLAGS
rm -f target/nextest/pb/junit.xml
cargo nextest run --workspace --no-fail-fast --tool-config-file pb:/w/lib/nextest.toml --profile pb --test-threads 8 --offline >/tmp/verif_baseline.log 2>&1
python3 - "$REPO/target/nextest/pb/junit.xml" <<'PY'
import json, sys, xml.etree.ElementTree as ET
base = json.load(open('/root/.vp/BASELINE.json'))
root = ET.parse(sys.argv[1]).getroot()
passed, failed = set(), set()
for tc in root.iter('testcase'):
    tid = (tc.get('classname') or '') + '::' + (tc.get('name') or '')
    if tc.find('failure') is not None or tc.find('error') is not None or tc.find('flakyFailure') is not None or tc.find('rerunFailure') is not None:
        failed.add(tid)
    elif tc.find('skipped') is None:
        passed.add(tid)
passed -= failed
missing = [t for t in base['stable_pass'] if t not in passed]
print('stable_pass=%d passed_now=%d missing=%d' % (len(base['stable_pass']), len(passed), len(missing)))
for t in missing[:40]:
    print('  NOT PASSING:', t)
sys.exit(1 if missing else 0)
PY
