CONSTANTS MaxLines = 3 MaxStack = 3
SPECIFICATION Spec
INVARIANTS StackBounded LeavesAreLeaves Emit
CHECK_DEADLOCK FALSE
