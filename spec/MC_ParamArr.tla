----------------------------- MODULE MC_ParamArr -----------------------------
(* Parameter expansion over arrays, indirection and case transformations (C06, second part), built on ParamOps.tla.

   An array is a sequence of values (dense, indices 0..n-1).  Results are LISTS of values (one argument each).
     alen                 "${#a[@]}"                       akeys        "${!a[@]}"
     aslice1 x            "${a[@]:x}"                      aslice2 x y  "${a[@]:x:y}"     (y < 0 is an error for arrays)
     amap op              "${a[@]<op>}" - the scalar operator of ParamOps applied to every element
     aelen i              "${#a[i]}"
   Positional parameters behave like an array whose element 0 is $0 for slicing purposes ("${@:1:2}").
     pslice1 x / pslice2 x y   "${@:x}" "${@:x:y}"  with $0 = "Z"
   Indirection: v holds the NAME of t (set to a value), of e (empty), of u (unset), or is itself unset:
     ind                  "${!v}"            inddflt  "${!v:-W}"      indalt  "${!v:+W}"
   Transformations:  tU "${v@U}"  tu "${v@u}"  tL "${v@L}"                                                         *)
EXTENDS ParamOps, Json

CONSTANTS Fam, Chunk, NChunks

Elems == << <<"a">>, <<"a", "b">>, <<" ", "b">>, <<>>, <<"b", "*">> >>
Arrays == UNION {[1..n -> 1..Len(Elems)] : n \in 0..3}
ArrOf(ix) == [i \in 1..Len(ix) |-> Elems[ix[i]]]
Offs == {-4, -2, -1, 0, 1, 2, 4}
Op(k, x, y, p, r) == [k |-> k, x |-> x, y |-> y, p |-> p, r |-> r]
MapOps == {Op("rp", 0, 0, <<"a">>, <<>>), Op("rP", 0, 0, <<"*">>, <<>>), Op("rs", 0, 0, <<"b">>, <<>>), Op("rS", 0, 0, <<"?">>, <<>>), Op("rep1", 0, 0, <<"a">>, <<"X">>), Op("repA", 0, 0, <<"?">>, <<"X">>),
           Op("upA", 0, 0, <<>>, <<>>), Op("up1", 0, 0, <<>>, <<>>), Op("loA", 0, 0, <<>>, <<>>)}
Min2(a, b) == IF a < b THEN a ELSE b
\* slice of a list with 0-based start s (already resolved) and optional length
Slice(l, s, hasLen, len) ==
  LET n == Len(l) IN
  IF s < 0 \/ s >= n THEN [st |-> "ok", val |-> <<>>]          \* a start at or beyond the end selects nothing (and the length is not looked at)
  ELSE IF ~hasLen THEN [st |-> "ok", val |-> SubSeq(l, s + 1, n)]
  ELSE IF len < 0 THEN [st |-> "err", val |-> <<>>]
  ELSE [st |-> "ok", val |-> SubSeq(l, s + 1, Min2(n, s + len))]
ArrSlice(a, off, hasLen, len) == Slice(a, IF off < 0 THEN Len(a) + off ELSE off, hasLen, len)
\* "${@:x:y}": the list is $0 followed by the parameters; a negative offset counts from the end of the parameters + 1
PosSlice(ps, off, hasLen, len) == LET full == <<<<"Z">>>> \o ps IN Slice(full, IF off < 0 THEN Len(full) + off ELSE off, hasLen, len)
Num(n) == <<"N", n>>
ApplyArr(a, op) ==
  CASE op.k = "alen" -> [st |-> "ok", val |-> <<Num(Len(a))>>]
    [] op.k = "akeys" -> [st |-> "ok", val |-> [i \in 1..Len(a) |-> Num(i - 1)]]
    [] op.k = "aslice1" -> ArrSlice(a, op.x, FALSE, 0)
    [] op.k = "aslice2" -> ArrSlice(a, op.x, TRUE, op.y)
    [] op.k = "pslice1" -> PosSlice(a, op.x, FALSE, 0)
    [] op.k = "pslice2" -> PosSlice(a, op.x, TRUE, op.y)
    [] op.k = "aelen" -> [st |-> "ok", val |-> <<Num(IF op.x + 1 <= Len(a) THEN Len(a[op.x + 1]) ELSE 0)>>]
\* "${a[@]<op>}": the scalar operator m of ParamOps applied to every element
ApplyMap(a, m) == LET rs == [i \in 1..Len(a) |-> Apply(a[i], "set", m)] IN
                  IF \E i \in 1..Len(a) : rs[i].st = "err" THEN [st |-> "err", val |-> <<>>] ELSE [st |-> "ok", val |-> [i \in 1..Len(a) |-> rs[i].val]]

\* default / alternative operators applied to a whole list ("${a[@]-w}" "${a[*]:+w}" "${@:-w}" ...): the list is SET when it has an element,
\* NULL when its elements joined by blanks give the empty string (no element, or exactly one empty element)
RECURSIVE JoinSp(_)
JoinSp(l) == IF l = <<>> THEN <<>> ELSE IF Len(l) = 1 THEN l[1] ELSE l[1] \o <<" ">> \o JoinSp(Tail(l))
ListDflt(a, form, op) ==
  LET isSet == Len(a) > 0   nonNull == isSet /\ JoinSp(a) # <<>>
      V == IF form = "at" THEN a ELSE <<JoinSp(a)>>
      W == <<<<"W">>>>
      none == IF form = "at" THEN <<>> ELSE <<<<>>>>            \* "${unset[@]+w}" is no word at all, "${unset[*]+w}" one empty word
  IN CASE op = "dflt" -> IF isSet THEN V ELSE W
       [] op = "dfltC" -> IF nonNull THEN V ELSE W
       [] op = "alt" -> IF isSet THEN W ELSE none
       [] op = "altC" -> IF nonNull THEN W ELSE (IF form = "at" /\ isSet THEN <<<<>>>> ELSE none)

ArrOps == {Op("alen", 0, 0, <<>>, <<>>), Op("akeys", 0, 0, <<>>, <<>>)} \cup {Op("aslice1", x, 0, <<>>, <<>>) : x \in Offs} \cup {Op("aslice2", x, y, <<>>, <<>>) : x \in Offs, y \in {-1, 0, 1, 2, 4}}
          \cup {Op("pslice1", x, 0, <<>>, <<>>) : x \in Offs} \cup {Op("pslice2", x, y, <<>>, <<>>) : x \in Offs, y \in {0, 1, 2, 4}}
          \cup {Op("aelen", x, 0, <<>>, <<>>) : x \in {0, 1, 3}}

\* indirection: what v holds
IndTargets == {"t", "e", "u", "unsetv"}
TargetVal(t) == CASE t = "t" -> [b |-> "set", v |-> <<"a", " ", "b">>] [] t = "e" -> [b |-> "set", v |-> <<>>] [] t = "u" -> [b |-> "unset", v |-> <<>>]
Ind(t, k) ==   \* k: ind / inddflt / indalt ; v unset: ${!v} is an error in bash ("invalid indirect expansion") unless an alternative form handles it
  IF t = "unsetv" THEN (CASE k = "ind" -> [st |-> "err", val |-> <<>>] [] k = "inddflt" -> [st |-> "ok", val |-> <<"W">>] [] k = "indalt" -> [st |-> "ok", val |-> <<>>])
  ELSE LET tv == TargetVal(t)  nonNull == tv.b = "set" /\ tv.v # <<>> IN
       CASE k = "ind" -> [st |-> "ok", val |-> tv.v] [] k = "inddflt" -> [st |-> "ok", val |-> IF nonNull THEN tv.v ELSE <<"W">>] [] k = "indalt" -> [st |-> "ok", val |-> IF nonNull THEN <<"W">> ELSE <<>>]

TransVals == {<<>>, <<"a">>, <<"a", "B", " ", "c">>, <<"A", "b">>, <<" ", "a">>, <<"U", "a">>, <<"1", "a">>}
Trans(v, k) == CASE k = "tU" -> MapSeq(v, Upper) [] k = "tL" -> MapSeq(v, Lower) [] k = "tu" -> IF v = <<>> THEN v ELSE <<Upper(v[1])>> \o Tail(v)

VARIABLE done
Init == done = FALSE
Next == done' = TRUE
Emit == done \/
  CASE Fam = "arr" -> \A ix \in Arrays : (Len(ix) + (IF Len(ix) > 0 THEN ix[1] ELSE 0)) % NChunks = Chunk =>
                         /\ \A op \in ArrOps : LET r == ApplyArr(ArrOf(ix), op) IN PrintT(<<"ROW", ToJson([fam |-> "arr", a |-> ArrOf(ix), op |-> op, st |-> r.st, val |-> r.val])>>)
                         /\ \A m \in MapOps : LET r == ApplyMap(ArrOf(ix), m) IN PrintT(<<"ROW", ToJson([fam |-> "amap", a |-> ArrOf(ix), op |-> m, st |-> r.st, val |-> r.val])>>)
    [] Fam = "adflt" -> Chunk # 0 \/ \A ix \in Arrays, form \in {"at", "star"}, op \in {"dflt", "dfltC", "alt", "altC"}, tgt \in {"arr", "pos"} :
                         PrintT(<<"ROW", ToJson([fam |-> "adflt", a |-> ArrOf(ix), form |-> form, k |-> op, tgt |-> tgt, st |-> "ok", val |-> ListDflt(ArrOf(ix), form, op)])>>)
    [] Fam = "ind" -> Chunk # 0 \/ \A t \in IndTargets, k \in {"ind", "inddflt", "indalt"} : LET r == Ind(t, k) IN PrintT(<<"ROW", ToJson([fam |-> "ind", t |-> t, k |-> k, st |-> r.st, val |-> r.val])>>)
    [] Fam = "trans" -> Chunk # 0 \/ \A v \in TransVals, k \in {"tU", "tL", "tu"} : PrintT(<<"ROW", ToJson([fam |-> "trans", v |-> v, k |-> k, st |-> "ok", val |-> Trans(v, k)])>>)
=============================================================================
