"""C04 - quoted expansions arrive byte-exact; unquoted $x undergoes only field splitting and pathname expansion.

(A) spec/WordExp.tla, family c04: TLC checks QuotedIdentity and SplitKeepsQuoted for every value of <= VL characters in
    every environment, and emits the argument lists of the unquoted forms ($x, a$x"$x", ${u:-$x}, $x*, $(..), $@,
    ${a[@]}) - with IFS in {unset, default, space, newline, empty, ':', ' :', 'a'} and an empty / populated directory -
    which are replayed into bash (audit) and brush.
(B) QuotedIdentity (a theorem of the model for every value: the quoted forms never reach Split or Glob) is replayed
    into brush for an adversarial value set in every expansion context x IFS x glob option, in a directory that
    contains names the value could match."""
import itertools, random
from .common import *
from . import wordexp as W
from .c05 import judge

PROP = "C04"
ALPHA = [" ", "\t", "\n", ":", "*", "?", "[", "]", "{", "}", ",", "'", '"', "$", "`", "\\", "~", "!", "a", "j", "é", "(", ")", "=", "-", "#", ";", "&", "|", "<", ">"]
SMALL = [" ", "\n", "*", "[", "'", '"', "$", "\\", "a", "{"]
SPECIAL = ["(a b)", "([0]=a [1]=b)", "[0]=z", "$(echo X)", "`echo X`", "${HOME}", "$((1+1))", "~", "~root", "{a,b}", "{1..3}", "a b", " a ", "*", ".*", "[ab]", "a*", "\\*", "\\", "\\\\", "'", "\"", "-n", "-e", "--", "\n", "\n\n", "a\n", "x=y", "!", "!!", "🚀", "é*", "?", "a\tb",
           "$'a'", "$\"a\"", "<(echo)", "a;b", "&", "#c", "+(a)", "@(a|ab)", "!(x)", "*(a)", "a]", "[!a]", "[[:alpha:]]", "a\\", "\\a", "\\\n", "%s", "%", "\x01", "\x7f", "\x1b[0m"]
IFSES = [("unset", None), ("empty", ""), ("colon", ":"), ("j", "j"), ("spnl", " \n"), ("star", "*")]
OPTS = ["none", "nullglob", "failglob", "dotglob", "extglob", "noglob", "nocaseglob"]


def values(tier, rnd):
    vals = set(SPECIAL) | {""}
    for n in (1, 2):
        for t in itertools.product(ALPHA, repeat=n):
            vals.add("".join(t))
    small = SMALL if tier == "quick" else ALPHA[:16]
    for t in itertools.product(small, repeat=3):
        vals.add("".join(t))
    for _ in range(400 if tier == "quick" else 800):
        vals.add("".join(rnd.choice(ALPHA) for _ in range(rnd.randint(4, 30))))
    # long values: pipe / read-buffer boundaries (1 KiB, 2 KiB, 4 KiB, 64 KiB) crossed by multi-byte characters
    for n in list(range(1020, 1027)) + list(range(2044, 2050)) + [4093, 4094, 4095, 4096, 8190, 8191, 65533, 65534, 65535, 65536]:
        vals.add("a" * n + "éé日é")
        vals.add("a" * n + "🚀 *")
    vals.add("é" * 700)
    vals.add("日" * 11000 + "\n")
    vals.add(("é \n*" * 9000))
    return sorted(vals)


def valid_name(v):
    return v not in ("", ".", "..") and "/" not in v and "\0" not in v and len(v.encode()) < 200


def forms(v):
    """(source lines, expected groups). Each F call prints one group."""
    vs = v.rstrip("\n")
    L = [
        ('F "$x"', [[v]]), ('F "${x}"', [[v]]), ('F "${a[@]}"', [[v, v]]), ('F "$@"', [[v, v]]), ('F "${@}" "$1"', [[v, v, v]]),
        ('F "$(printf %s "$x")"', [[vs]]), ('F "`printf %s "$x"`"', [[vs]]),
        ('y=$x; F "$y"', [[v]]), ('y="$x"; F "$y"', [[v]]), ('y=${x}; F "$y"', [[v]]), ('y=$1; F "$y"', [[v]]), ('y=${a[0]}; F "$y"', [[v]]),
        ('y=p$x"q"; F "$y"', [["p" + v + "q"]]),
        ('arr=("$x" pre"$x"post); F "${arr[@]}"', [[v, "pre" + v + "post"]]), ('arr=(); arr+=("$x"); arr[3]="$x"; F "${arr[@]}"', [[v, v]]), ('arr=([1]="$x"); F "${arr[1]}"', [[v]]),
        ('case "$x" in "$x") F ok;; *) F bad;; esac', [["ok"]]), ('case $x in "$x") F ok;; *) F bad;; esac', [["ok"]]), ('case "p${x}q" in p"$x"q) F ok;; *) F bad;; esac', [["ok"]]),
        ('y=$(cat <<< "$x"; echo .); F "$y"', [[v + "\n."]]), ('y=$(cat <<< $x; echo .); F "$y"', None), ('y=$(cat <<E\n$x\nE\n); F "$y"', None),
        ('[[ "$x" == "$x" ]] && F ok', [["ok"]]), ('[[ $x == "$x" ]] && F ok', [["ok"]]), ('[[ "$x" = *"$x"* ]] && F ok', [["ok"]]), ('[[ -n "$x" ]]; F $?', [["0" if v else "1"]]),
        ('[ "$x" = "$x" ] && F ok', [["ok"]]),
        ('for i in "$x" "$x"; do F "$i"; done', [[v], [v]]), ('F "a${x}b" "$x$x"', [["a" + v + "b", v + v]]), ('F "${x:-D}" "${x:+"$x"}"', [[v or "D", v]]), ('F "${u:-$x}" "${u-"$x"}"', [[v, v]]),
        ('declare y="$x"; F "$y"', [[v]]), ('declare y=$x; F "$y"', [[v]]), ('export y="$x"; F "$y"', [[v]]), ('g() { local y=$x z="$x"; F "$y" "$z" "$1"; }; g "$x"', [[v, v, v]]),
        ('declare -a arr2=("$x"); F "${arr2[@]}"', [[v]]), ('printf -v y %s "$x"; F "$y"', [[v]]), ('F "${x@Q}" >/dev/null; F "${#x}"', [[str(len(v))]]),
        ('ref=x; F "${!ref}"', [[v]]), ('F "${x:0}" "${x::${#x}}"', [[v, v]]), ('declare -A m; m[k]="$x"; m[j]=$x; F "${m[k]}" "${m[j]}"', [[v, v]]),
        ('h() { F "$@"; }; h "$x" "$@"', [[v, v, v]]), ('set -- "$x" "$x"; F "$#"', [["2"]]), ('F "${*:1:1}" "${@:2}" "${a[@]:1}"', [[v, v, v]]), ('F "${x%%}" "${x/#/}"', None),
    ]
    if valid_name(v):
        L.append(('mkdir -p r; true > "r/$x"; [ -f "r/$x" ] && F ok; echo hi >> r/"$x"; F "$(< "r/$x")"; rm -rf r', [["ok"], ["hi"]]))
    return L


def script(v, rnd_configs):
    L = ["mkdir d; cd d || exit 9", "F() { printf '%s\\0' \"$#\" \"$@\"; }", "M() { printf 'R%s\\0' \"$1\"; }",
         "x=$X; unset u", ": > a; : > ab; : > .h; : > 'a b'; : > A"]
    if valid_name(v):
        L.append(': > "$x"; : > "${x}x" 2>/dev/null')
    exp = {}
    n = 0
    for (iname, ifs), opt in rnd_configs:
        L.append("unset IFS" if ifs is None else "IFS=%s" % W.sq(ifs))
        if opt == "noglob":
            L.append("set -f")
        elif opt != "none":
            L.append("shopt -s %s" % opt)
        L.append('a=("$x" "$x"); set -- "$x" "$x"')
        for src, e in forms(v):
            L.append("M %d; %s" % (n, src))
            exp[n] = (src, e, iname, opt)
            n += 1
        if opt == "noglob":
            L.append("set +f")
        elif opt != "none":
            L.append("shopt -u %s" % opt)
    return "\n".join(L) + "\n", exp


def parse_groups(out):
    f = out.split("\0")
    res, i, cur = {}, 0, None
    while i < len(f):
        m = re.match(r"^R(\d+)$", f[i])
        if m:
            cur = int(m.group(1))
            res[cur] = []
            i += 1
        elif cur is not None and re.match(r"^\d+$", f[i]) and i + int(f[i]) < len(f):
            n = int(f[i])
            res[cur].append(f[i + 1:i + 1 + n])
            i += 1 + n
        else:
            i += 1
    return res


def known(v, src, val):
    for f in v.findings:
        if f.get("status") == "known" and f.get("mode") == "class" and f.get("form_match") and re.search(f["form_match"], src) and (not f.get("value_match") or re.search(f["value_match"], val)):
            v.known(f["id"], f["what"][:110])
            return True
    return False


def run(tier):
    v = Verdict(PROP, tier, "model_checking")
    build_harness()
    # (A)
    pool, rows, states = W.model("c04", 0, 2 if tier == "quick" else 3)
    w4 = pool["w4"]
    if tier == "quick":
        rows = [r for r in rows if (len(r["x"]) < 2 or (sum(r["c"]) + len(r["x"][0]) + ord(r["x"][1][0])) % 3 == 0)]
    evalsA, nontrivial = judge(v, pool, rows, lambda row: w4[row["w"][0] - 1], "c04")
    if v.audit_disagreements > 0.04 * max(1, evalsA):
        raise ToolError("model/bash disagreement rate too high: %d of %d" % (v.audit_disagreements, evalsA))
    # (B)
    rnd = random.Random(SEED)
    vals = values(tier, rnd)
    allcfg = [(i, o) for i in IFSES for o in OPTS]

    def one(val):
        r2 = random.Random(int(hashlib.sha1(val.encode()).hexdigest()[:8], 16) ^ SEED)
        cfgs = [(IFSES[0], "none")] + r2.sample(allcfg, 6 if tier == "quick" else 10)
        if len(val) > 500:
            cfgs = cfgs[:2] if tier == "quick" else cfgs[:8]        # long values: the buffer boundaries matter, not the configuration
        scr, exp = script(val, cfgs)
        b = run_script("bash", scr, front="file", extra_env={"X": val}, timeout=120)
        r = run_script("brush", scr, front="file", extra_env={"X": val}, timeout=240)
        return val, scr, exp, b, r
    evalsB = 0
    for val, scr, exp, b, r in pmap(one, vals):
        if crashed(r) or r["timeout"]:
            v.violation("crash:%r" % val, {"kind": "crash or hang", "value": val, "stderr": r["err"][-400:], "part": "B"})
            continue
        pb, pr = parse_groups(b["out"]), parse_groups(r["out"])
        for n, (src, e, iname, opt) in exp.items():
            evalsB += 1
            ref = pb.get(n)
            if e is None:
                e = ref                      # forms whose exact result is bash's (here-document with $x on its own line)
            if ref != e:
                v.audit_miss({"value": val, "form": src, "ifs": iname, "opt": opt, "model": e, "bash": ref})
                continue
            if pr.get(n) != e:
                if known(v, src, val):
                    continue
                v.violation("B|%s|%s|%s|%r" % (src, iname, opt, val), {"kind": "quoted expansion not delivered exactly", "part": "B", "value": val, "form": src, "ifs": iname, "opt": opt,
                                                                           "expected": e, "observed": pr.get(n), "stderr": r["err"][-300:]})
    return v.finish({
        "states": states, "transitions": len(rows), "traces_validated_against_impl": evalsA + evalsB, "evaluations": evalsA + evalsB, "distinct_nontrivial": nontrivial + evalsB,
        "rule": "(A) every value of <= %d characters over {a SP NL : * ? \\ ' { ~} x IFS in {unset, default, SP, NL, empty, ':', ' :', 'a'} x {empty, populated} directory x 4 positional lists x 7 unquoted/mixed "
                "forms: QuotedIdentity and SplitKeepsQuoted checked by TLC on each, argument lists replayed into bash and brush%s; (B) %d values (every string of <= 2 characters over a 30-character "
                "adversarial alphabet, length 3 over a sub-alphabet, %d special values, seeded random strings of 4-30 characters) x up to %d expansion contexts (argument, assignment, array element, case word, "
                "here-string, here-document, redirection target, [[ ]] / [ ] operand, for list, declare/export/local, printf -v, functions) x IFS in {unset, empty, ':', 'j', SP NL, '*'} x glob option in %s%s, in a "
                "directory holding a, ab, .h, 'a b', A and files named after the value" % (2 if tier == "quick" else 3, " (two thirds of the length-2 values thinned in quick)" if tier == "quick" else "", len(vals), len(SPECIAL), len(forms("a")), OPTS,
                                                                                       " (7 of the 42 IFS x option configurations per value in quick, 11 in thorough)"),
        "values": len(vals), "evaluations_A": evalsA, "evaluations_B": evalsB, "exhaustive": False,
        "samples": [{"value": vals[len(vals) // 3], "form": 'F "$x"', "expected": [[vals[len(vals) // 3]]]}],
    }, assumptions=["bash 5.2.15 is the reference for part A and a cross-check of the harness for part B; a case counts only if bash reproduces the expected result",
                    "values are valid UTF-8 without NUL, injected through the environment", "locale C.UTF-8"])


def replay(path):
    with open(path) as f:
        c = json.load(f)
    build_harness()
    if c.get("part") == "B":
        cfg = [((c["ifs"], dict(IFSES)[c["ifs"]]), c["opt"])]
        scr, exp = script(c["value"], cfg)
        r = run_script("brush", scr, front="file", extra_env={"X": c["value"]}, timeout=60)
        pr = parse_groups(r["out"])
        n = [k for k, e in exp.items() if e[0] == c["form"]][0]
        print("expected", c["expected"], "observed", pr.get(n))
        if pr.get(n) != c["expected"]:
            print("VIOLATION property=%s replay=%s" % (PROP, path))
            return 1
        return 0
    pool, rows, _ = W.model("c04", 0, 0)
    r = W.run_rows("brush", pool, c["c"][:3] + [1], c["x"], [(0, c["word"])], [len(c["expected"]) == 2])
    print("expected", c["expected"], "observed", r.get(0))
    if r.get(0) != c["expected"]:
        print("VIOLATION property=%s replay=%s" % (PROP, path))
        return 1
    return 0
