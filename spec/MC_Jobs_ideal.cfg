\* C17 exhaustive: every interleaving of 4 jobs' begin/end with launches, waits, wait %n and polls
CONSTANTS
  MaxJobs = 4
  DEV = {}
  PollEnabled = TRUE
SPECIFICATION Spec
INVARIANTS DistinctIds WaitComplete WaitedEnded NoLostJob TypeOK
PROPERTY WaitReturns
CHECK_DEADLOCK FALSE
