"""C14 - printed function definitions re-parse to the same function (spec/Printer.tla; programs from InterpGen.tla).

(1) TLC checks on Printer.tla's token-level printer that no two tokens of a redirection list fuse (Sound), and that the
    as-found separator rule (DEV GluedRedirects) violates it.
(2) Round-trip protocol of Printer.tla on real definitions: for every function body - TLC-generated programs of the
    InterpGen profiles C02 and C18 (every compound command, fault leaves with redirections) plus a list of hand-written
    bodies for the constructs the generator lacks - the shell prints the function (declare -f), a fresh definition is made
    from the printed text, printed again, and run:  FixedPoint (second print == first print), SameBehaviour (output and
    status of the re-read function == those of the original, also when it travels to a child shell through export -f),
    and bash accepts the printed text and behaves the same."""
import random
from .common import *
from . import interp_check as ic
from .render import Renderer, PRELUDE

PROP = "C14"
EXTRA = [
    'while false; do echo x; done >/dev/null 2>&1; echo after',
    'for i in 1 2; do echo $i; done >&2 2>/dev/null',
    'if true; then echo a; else echo b; fi >/dev/null',
    '{ echo a; echo b >&2; } 2>&1 >/dev/null',
    '( echo sub ) >/dev/null 2>&1 </dev/null',
    'case $1 in a|b) echo ab ;; c) echo c ;& d) echo d ;;& *) echo star ;; esac',
    'case x in (x) echo paren ;; esac',
    '! true | false; echo $?',
    'time -p true 2>/dev/null; echo timed',
    'inner() { echo inner "$@"; }; inner 1 2; unset -f inner',
    '(( x = 3 + 4, x > 5 )) && echo big',
    'for ((i = 0; i < 2; i++)); do echo $i; done',
    '[[ -n $1 && ( $1 == a* || $1 =~ ^b ) ]] && echo match; [[ ! -e /nonexistent ]] && echo none',
    'cat <<< "here string $1"',
    'cat <(echo procsub) ; echo > >(cat >/dev/null)',
    'echo a | tr a b |& cat',
    'echo bg & wait',
    "x=(1 2 '3 4'); echo ${#x[@]} \"${x[2]}\"; declare -A m=([k]=v); echo ${m[k]}",
    "echo $'tab\\tq' \"dq $1\" 'sq' $((1+2)) `echo bq` $(echo cs) ${1:-def} ${#1}",
    'local v=1 w; v+=2; echo $v; return 3',
    'until true; do :; done; while :; do break; done; echo loops',
    'echo one; echo two > /dev/null; echo three 2>&1 | cat; echo "four;five" \\; six',
    'if false; then :; elif true; then echo elif; else echo else; fi',
    'a=1 b=2 env | grep -c "^[ab]=" ; x=5 eval \'echo $x\'',
    'exec 3>/dev/null; echo to3 >&3; exec 3>&-; echo closed',
    '{ echo nested; { echo deeper; ( echo deepest; ); }; }',
    'trap \'echo trapped\' USR1; trap -p USR1 | wc -l; trap - USR1; echo done',
    'echo "multi\nline"; echo \'single\nquote\'',
    'f2() ( echo subshell body ); f2; unset -f f2',
    'coproc { cat; } 2>/dev/null; echo co',
    'echo ${1//a/b} ${1^^} ${1:1:2} ${!1} ${1@Q} 2>/dev/null',
    'cat <<EOF\nbody $1\nEOF',
    'cat <<-\'EOF\'\n\tliteral $1\n\tEOF',
    'cat <<A <<B\nfirst\nA\nsecond\nB',
    'while read -r l; do echo "got $l"; done <<EOF\nl1\nl2\nEOF',
    'inner() { cat; } <<E2\nnested body\nE2\ninner; echo after; unset -f inner',
    'inner() { cat; } <<E2 && echo defined\nnested body\nE2\ninner | cat; unset -f inner',
    'set -- p q; for x; do echo "arg $x"; done; for y in; do echo never; done; echo end',
    'if cat <<EOF; then echo yes; fi\ncond body\nEOF',
    'if true & then echo z; fi; wait',
    'while false & true; do echo x; break; done; wait',
    'if true; false & then echo a; else echo b; fi; wait',
    'until true & false & true; do echo u; break; done; wait',
    'if false & true; then echo yes; fi; wait',
    'while true; false & do echo once; break; done; wait',
    'if false; then :; elif true & false; then echo e1; elif false; true & then echo e2; fi; wait',
    'cat <<EOF &\nbg body\nEOF\nwait; echo waited',
    'cat <<EOF | tr a-z A-Z; echo next\npiped body\nEOF',
    '{ cat; echo in-group; } <<EOF\ngroup body\nEOF',
]
# whole definitions (marker @DEF@): bodies that are not brace groups, and redirections attached to the DEFINITION (they belong to the function:
# printed with it, re-read with it, exported with it)
EXTRA += ["@DEF@" + d for d in [
    'F() { echo out; echo err >&2; } 2>&1 >/dev/null',
    'F() ( echo sub; echo e >&2 ) 2>/dev/null',
    'F() { echo to-err; } >&2',
    'F() { cat; } <<< "here string $1"',
    'F() { cat; } <<EOF\ndefinition document $1\nEOF',
    'F() { cat; cat <&3; } <<A 3<<B\nfirst $1\nA\nsecond\nB',
    'F() { echo a; } >> "$HOME/appended"; F x; cat "$HOME/appended"',
    'function F { echo kw "$@"; } 2>&1',
    'function F() { echo kw2; } >/dev/null',
    'F() for i in 1 2; do echo $i; done >&2',
    'F() if [ -n "$1" ]; then echo y; else echo n; fi',
    'F() while false; do :; done',
    'F() case $1 in a*) echo A ;; *) echo other ;; esac 2>/dev/null',
    'F() (( ${#1} > 2 ))',
    'F() [[ -n $1 && $1 == a* ]]',
    'F() { read -r l; echo "got $l"; } < /dev/null',
    'F() { echo x; } 1>&2 2>/dev/null',
]]


def definition(body):
    return body[5:] if body.startswith("@DEF@") else "F() {\n" + body + "\n}"


HERE_RE = re.compile(r"<<-?\s*['\"\\]?[A-Z]")


def script(body, arg="abc"):
    return (PRELUDE % {"R": ""}) + definition(body) + "\n" + r'''A=$(declare -f F)
printf '%s\n' "$A" > "$HOME/printed"
( F ARG ) > "$HOME/out1" 2>/dev/null; echo "it:$?" >> "$HOME/out1"
unset -f F
eval "$A" 2> "$HOME/evalerr" || echo EVALFAIL >> "$HOME/evalerr"
B=$(declare -f F)
printf '%s\n' "$B" > "$HOME/printed2"
( F ARG ) > "$HOME/out2" 2>/dev/null; echo "it:$?" >> "$HOME/out2"
export -f F M T S Q K 2>/dev/null
"$SHELLBIN" --norc --noprofile -c 'F ARG' > "$HOME/out3" 2>/dev/null; echo "it:$?" >> "$HOME/out3"
'''.replace("ARG", arg)


BASH_SCRIPT = (PRELUDE % {"R": ""}) + r'''eval "$(cat "$HOME/printed")" 2> "$HOME/bevalerr" || echo EVALFAIL >> "$HOME/bevalerr"
( F ARG ) > "$HOME/bout" 2>/dev/null; echo "it:$?" >> "$HOME/bout"
'''


def run_one(body):
    scr = script(body)
    r = run_script("brush", scr, front="file", timeout=60, extra_env={"SHELLBIN": brush_bin()}, keep=True, stdin_data=b"")
    d = r["dir"]

    def rd(n):
        p = os.path.join(d, n)
        return open(p, "rb").read().decode("utf-8", "replace") if os.path.exists(p) else None
    res = {k: rd(k) for k in ("printed", "printed2", "out1", "out2", "out3", "evalerr")}
    # bash re-reads the text brush printed
    if res["printed"]:
        with open(os.path.join(d, "b.sh"), "w") as f:
            f.write(BASH_SCRIPT.replace("ARG", "abc"))
        env = dict(BASE_ENV, HOME=d, PATH=bin_path("") + ":/usr/bin:/bin", TMPDIR=d)
        rb = run_proc([BASH, "--norc", "--noprofile", "b.sh"], d, env, b"", 60)
        res["bout"], res["bevalerr"] = rd("bout"), rd("bevalerr")
        # and bash's own run of the ORIGINAL source (reference for "behaves identically")
        with open(os.path.join(d, "o.sh"), "w") as f:
            f.write((PRELUDE % {"R": ""}) + definition(body) + "\n( F abc ) > \"$HOME/oout\" 2>/dev/null; echo \"it:$?\" >> \"$HOME/oout\"\n")
        run_proc([BASH, "--norc", "--noprofile", "o.sh"], d, env, b"", 60)
        res["oout"] = rd("oout")
    shutil.rmtree(d, ignore_errors=True)
    return res, r


def run(tier):
    v = Verdict(PROP, tier, "model_checking")
    build_harness()
    mc1 = run_tlc("MC_Printer", "MC_Printer_ideal.cfg", workers=2, timeout=600)
    if not mc1["ok"]:
        raise ToolError("Printer.tla: the separator rule is not sound: %s" % mc1["violation"])
    mc2 = run_tlc("MC_Printer", "MC_Printer_asfound.cfg", workers=2, timeout=600)
    if mc2["ok"]:
        raise ToolError("Printer.tla self-test: the as-found glued printing should violate Sound")
    rnd = random.Random(SEED)
    bodies = [("extra", b) for b in EXTRA]
    for cfg, cap in (("MC_InterpGen_c18_quick.cfg", 1200), ("MC_InterpGen_c02_quick.cfg", 1500)):
        progs, _ = ic.gen_programs([cfg])
        progs, _ = ic.stratified(progs, 1, SEED)
        if tier == "quick" and len(progs) > cap:
            progs = rnd.sample(progs, cap)
        for P in progs:
            r = Renderer(P, use9=False)
            bodies.append(("gen", r.r(1)))

    def one(item):
        kind, body = item
        return item, run_one(body)
    evals = 0
    for (kind, body), (res, r) in pmap(one, bodies):
        evals += 1
        if crashed(r) or r["timeout"]:
            v.violation("crash:" + body, {"kind": "crash or hang", "body": body, "stderr": r["err"][-300:]})
            continue
        problems = []
        if res["printed"] is None or not res["printed"].strip():
            problems.append("nothing printed")
        else:
            if res["evalerr"]:
                problems.append("brush cannot re-read its own printed text: " + res["evalerr"][-200:])
            if res["printed2"] != res["printed"]:
                problems.append("printing is not a fixed point")
            if res["out2"] != res["out1"]:
                problems.append("the re-read function behaves differently")
            if res["out3"] != res["out1"]:
                problems.append("the exported function behaves differently in a child shell")
            if res.get("bevalerr"):
                problems.append("bash rejects the printed text: " + res["bevalerr"][-200:])
            elif res.get("bout") != res.get("oout"):
                # bash running brush's text differs from bash running the original source
                problems.append("in bash, the printed text behaves differently from the original source")
        if not problems:
            continue
        if known(v, body, problems):
            continue
        v.violation(body, {"kind": "; ".join(problems), "body": body, "printed": res["printed"], "printed2": res["printed2"], "out1": res["out1"], "out2": res["out2"], "out3": res["out3"],
                           "bash_on_printed": res.get("bout"), "bash_on_original": res.get("oout")})
    return v.finish({
        "states": mc1["distinct"] + mc2["distinct"], "transitions": len(bodies), "traces_validated_against_impl": evals, "evaluations": evals * 6, "distinct_nontrivial": evals,
        "rule": "function bodies: %d hand-written (redirection lists on every compound command, case with |, ;& and ;;&, ! and time pipelines, nested definitions, (( )), for ((;;)), [[ ]], here-strings, process substitution, |&, &, "
                "arrays, quoting forms, select, coproc, exec, traps, here-documents) + TLC-generated programs of the InterpGen profiles C18 (fault leaves with redirections in every position) and C02 (all control-flow constructs)%s; "
                "per body: declare -f, re-definition from the printed text in brush and in bash, second print, three runs (original, re-read, exported to a child shell) compared" % (len(EXTRA), " (sampled: 1200 + 1500)" if tier == "quick" else ""),
        "bodies": len(bodies), "exhaustive": False,
        "samples": [{"body": b} for k, b in bodies[:: max(1, len(bodies) // 3)][:3]],
    }, assumptions=["bash 5.2.15 must accept the printed text and run it like the original source", "behaviour = stdout and status of one call with one argument; stderr is discarded"])


def known(v, body, problems):
    for f in v.findings:
        if f.get("status") == "known" and f.get("mode") == "class" and f.get("body_match") and re.search(f["body_match"], body, re.S):
            v.known(f["id"], f["what"][:110])
            return True
    return False


def replay(path):
    with open(path) as f:
        c = json.load(f)
    build_harness()
    res, r = run_one(c["body"])
    bad = res["printed2"] != res["printed"] or res["out2"] != res["out1"] or res["out3"] != res["out1"] or bool(res["evalerr"]) or bool(res.get("bevalerr")) or res.get("bout") != res.get("oout")
    print("printed:\n%s\nsecond print equal: %s; outputs: %r %r %r" % (res["printed"], res["printed2"] == res["printed"], res["out1"], res["out2"], res["out3"]))
    if bad:
        print("VIOLATION property=%s replay=%s" % (PROP, path))
        return 1
    return 0
