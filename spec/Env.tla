--------------------------------- MODULE Env ---------------------------------
(* Variable scope and attributes (C09): brush-core/src/env.rs (stack of Global / Local / Command scopes, lookup
   policies, tombstones), variables.rs (attributes shape assignments; readonly checked in assign), interp.rs /
   commands.rs (temporary assignments, environment of children), builtins declare / local / export / readonly / unset.

   scopes   stack of frames, innermost last.  frame = [kind, vars]; kind "g" global, "f" function, "t" function called
            with a temporary assignment prefix (the prefix variable lives in that frame, exported)
            vars: name -> NONE | [v, x, r, i, c, a]   v = value or UNSET; x exported; r readonly; i integer;
                                                     c case transform "" / "u" / "l"; a array (set through an element)
   A program is a flat sequence of steps; "enter" / "tenter" open a function body, "leave" closes it.
   After every step the observation Obs(scopes) - per name: value or U, attribute letters, value seen by a child
   process or U - is what the real shell must show.
   DEV (deviations of the implementation, switched on by name):
     IntegerNotEvaluated   a value assigned to an integer variable is converted by a plain numeral parse (non-numerals give 0)  *)
EXTENDS Naturals, Sequences, FiniteSets, TLC

CONSTANTS Names, DEV

NONE == [none |-> TRUE]
UNSET == <<"UNSET">>
Rec(v, x, r, i, c, a) == [v |-> v, x |-> x, r |-> r, i |-> i, c |-> c, a |-> a, t |-> FALSE]      \* t: bound by a temporary assignment prefix
Plain(v) == Rec(v, FALSE, FALSE, FALSE, "", FALSE)
EmptyVars == [n \in Names |-> NONE]
Frame(k) == [kind |-> k, vars |-> EmptyVars]

\* ---- values: short strings over a tiny alphabet; the numerals and "1+1" have an arithmetic meaning
Digits == {"0", "1", "2", "3", "4", "5", "6", "7", "8", "9"}
DigVal(ch) == CASE ch = "0" -> 0 [] ch = "1" -> 1 [] ch = "2" -> 2 [] ch = "3" -> 3 [] ch = "4" -> 4 [] ch = "5" -> 5 [] ch = "6" -> 6 [] ch = "7" -> 7 [] ch = "8" -> 8 [] ch = "9" -> 9
DigCh(d) == CASE d = 0 -> "0" [] d = 1 -> "1" [] d = 2 -> "2" [] d = 3 -> "3" [] d = 4 -> "4" [] d = 5 -> "5" [] d = 6 -> "6" [] d = 7 -> "7" [] d = 8 -> "8" [] d = 9 -> "9"
IsNumeral(s) == s # <<>> /\ \A j \in 1..Len(s) : s[j] \in Digits
RECURSIVE NumOf(_)
NumOf(s) == IF s = <<>> THEN 0 ELSE NumOf(SubSeq(s, 1, Len(s) - 1)) * 10 + DigVal(s[Len(s)])
RECURSIVE StrOf(_)
StrOf(k) == IF k < 10 THEN <<DigCh(k)>> ELSE StrOf(k \div 10) \o <<DigCh(k % 10)>>
\* arithmetic value of a text: a numeral, "1+1", otherwise a name of an unset variable: 0   (NUMS: numerals kept below 10^6)
Arith(s) == IF IsNumeral(s) THEN NumOf(s) % 1000000 ELSE IF s = <<"1", "+", "1">> THEN 2 ELSE 0
Upper(ch) == CASE ch = "a" -> "A" [] ch = "b" -> "B" [] OTHER -> ch
Lower(ch) == CASE ch = "A" -> "a" [] ch = "B" -> "b" [] OTHER -> ch
MapS(s, f(_)) == [j \in 1..Len(s) |-> f(s[j])]
\* what gets stored when text v is assigned (append = `+=`) to a variable with attributes of r0 currently holding cur
Shape(r0, cur, v, append) ==
  LET base == IF r0.i
              THEN (IF "IntegerNotEvaluated" \in DEV
                    THEN (IF append THEN StrOf(((IF cur # UNSET /\ IsNumeral(cur) THEN NumOf(cur) ELSE 0) + (IF IsNumeral(v) THEN NumOf(v) ELSE 0)) % 1000000) ELSE (IF IsNumeral(v) THEN StrOf(NumOf(v) % 1000000) ELSE <<"0">>))
                    ELSE StrOf(((IF append /\ cur # UNSET THEN Arith(cur) ELSE 0) + Arith(v)) % 1000000))
              ELSE (IF append /\ cur # UNSET THEN cur \o v ELSE v)
  IN CASE r0.c = "u" -> MapS(base, Upper) [] r0.c = "l" -> MapS(base, Lower) [] OTHER -> base

\* ---- lookup: innermost frame that has the name (a tombstone - declared, unset - counts and hides outer ones)
Depth(sc) == Len(sc)
Has(sc, d, n) == sc[d].vars[n] # NONE
FrameOf(sc, n) == LET D == {d \in 1..Len(sc) : Has(sc, d, n)} IN IF D = {} THEN 0 ELSE CHOOSE d \in D : \A e \in D : e <= d
Get(sc, n) == LET d == FrameOf(sc, n) IN IF d = 0 THEN NONE ELSE sc[d].vars[n]
Put(sc, d, n, rec) == [sc EXCEPT ![d].vars[n] = rec]
InFunc(sc) == Len(sc) > 1

\* assignment by any writer: readonly refuses; the visible variable is updated where it lives; otherwise a global is created
Assign(sc, n, v, append, elem) ==
  LET d == FrameOf(sc, n) IN
  IF d = 0 THEN Put(sc, 1, n, [Plain(v) EXCEPT !.a = elem])
  ELSE LET r0 == sc[d].vars[n] IN
       IF r0.r THEN sc
       ELSE Put(sc, d, n, [r0 EXCEPT !.v = Shape(r0, r0.v, v, append), !.a = r0.a \/ elem])

\* declare-family: where a new variable is created
\* local / declare inside a function: in the current function frame; shadowing a readonly variable is refused
Local(sc, n, v, attr) ==
  LET top == Len(sc)  cur == sc[top].vars[n]  vis == Get(sc, n) IN
  IF ~InFunc(sc) THEN sc
  ELSE IF cur # NONE
       THEN (IF cur.r THEN sc
             ELSE LET r1 == CASE attr = "i" -> [cur EXCEPT !.i = TRUE] [] attr = "u" -> [cur EXCEPT !.c = "u"] [] attr = "l" -> [cur EXCEPT !.c = "l"]
                               [] attr = "x" -> [cur EXCEPT !.x = TRUE] [] attr = "r" -> cur [] OTHER -> cur
                      r2 == IF v = UNSET THEN r1 ELSE [r1 EXCEPT !.v = Shape(r1, r1.v, v, FALSE)] IN
                  Put(sc, top, n, IF attr = "r" THEN [r2 EXCEPT !.r = TRUE] ELSE r2))
       ELSE IF vis # NONE /\ vis.r THEN sc
       ELSE LET r1 == Rec(UNSET, attr = "x", FALSE, attr = "i", IF attr \in {"u", "l"} THEN attr ELSE "", FALSE)
                r2 == IF v = UNSET THEN r1 ELSE [r1 EXCEPT !.v = Shape(r1, UNSET, v, FALSE)] IN
            Put(sc, top, n, IF attr = "r" THEN [r2 EXCEPT !.r = TRUE] ELSE r2)
\* export / readonly (anywhere) and declare at top level: act on the visible variable, else create a global
Mark(sc, n, v, attr) ==
  LET d == FrameOf(sc, n)  d1 == IF d = 0 THEN 1 ELSE d
      r0 == IF d = 0 THEN Plain(UNSET) ELSE sc[d].vars[n] IN
  IF r0.r /\ (v # UNSET \/ attr \in {"i", "u", "l"}) THEN (IF attr = "x" THEN Put(sc, d1, n, [r0 EXCEPT !.x = TRUE]) ELSE sc)
  ELSE LET r1 == CASE attr = "i" -> [r0 EXCEPT !.i = TRUE] [] attr = "u" -> [r0 EXCEPT !.c = "u"] [] attr = "l" -> [r0 EXCEPT !.c = "l"]
                   [] attr = "x" -> [r0 EXCEPT !.x = TRUE] [] OTHER -> r0
           r2 == IF v = UNSET THEN r1 ELSE [r1 EXCEPT !.v = Shape(r1, r1.v, v, FALSE)] IN
       Put(sc, d1, n, IF attr = "r" THEN [r2 EXCEPT !.r = TRUE] ELSE r2)
\* unset: readonly refuses; a local of the CURRENT function stays declared (tombstone); otherwise the variable is removed,
\* which reveals whatever it shadowed
Unset(sc, n) ==
  LET d == FrameOf(sc, n) IN
  IF d = 0 THEN sc
  ELSE LET r0 == sc[d].vars[n] IN
       IF r0.r THEN sc
       ELSE IF d = Len(sc) /\ d > 1 /\ ~r0.t THEN Put(sc, d, n, [r0 EXCEPT !.v = UNSET, !.a = FALSE])
       ELSE Put(sc, d, n, NONE)

\* ---- one step.  st = [op, n, v, w]
Step(sc, st) ==
  CASE st.op = "asg"   -> IF st.w = "defasg" /\ Get(sc, st.n) # NONE /\ Get(sc, st.n).v \notin {UNSET, <<>>} THEN sc      \* ${n:=v} assigns only to an unset or null variable
                          ELSE Assign(sc, st.n, st.v, st.w = "append", st.w \in {"elem", "mapfile"})      \* w: plain arith read printfv for defasg append elem getopts mapfile
    [] st.op = "local" -> Local(sc, st.n, st.v, st.w)                                    \* w: "" or attribute letter (declare -X inside a function)
    [] st.op = "mark"  -> IF InFunc(sc) /\ st.w \in {"i", "u", "l"} THEN Local(sc, st.n, st.v, st.w) ELSE Mark(sc, st.n, st.v, st.w)   \* export / readonly / declare -X
    [] st.op = "unset" -> Unset(sc, st.n)
    [] st.op = "enter" -> Append(sc, Frame("f"))
    [] st.op = "tenter" -> IF Get(sc, st.n) # NONE /\ Get(sc, st.n).r THEN Append(sc, Frame("f"))                 \* n=v f: the prefix is refused for a readonly variable, f still runs
                           ELSE Append(sc, [kind |-> "t", vars |-> [EmptyVars EXCEPT ![st.n] = [Plain(st.v) EXCEPT !.x = TRUE, !.t = TRUE]]])
    [] st.op = "leave" -> SubSeq(sc, 1, Len(sc) - 1)
    [] OTHER -> sc

Letters(r) == (IF r.a THEN <<"a">> ELSE <<>>) \o (IF r.i THEN <<"i">> ELSE <<>>) \o (IF r.c = "l" THEN <<"l">> ELSE <<>>) \o (IF r.r THEN <<"r">> ELSE <<>>)
              \o (IF r.c = "u" THEN <<"u">> ELSE <<>>) \o (IF r.x THEN <<"x">> ELSE <<>>)
ObsOf(sc, n) == LET r == Get(sc, n) IN
                IF r = NONE THEN [v |-> UNSET, f |-> <<>>, child |-> UNSET]
                ELSE [v |-> r.v, f |-> Letters(r), child |-> IF r.x /\ r.v # UNSET /\ ~r.a THEN r.v ELSE UNSET]
Obs(sc) == [n \in Names |-> ObsOf(sc, n)]

\* ---------------- properties of the model itself
\* a readonly variable keeps value and attributes through every step that does not leave its frame
ReadonlyStable(sc, st) ==
  \A n \in Names : LET d == FrameOf(sc, n) IN
     (d # 0 /\ sc[d].vars[n].r /\ st.op \notin {"leave", "enter", "tenter", "local"}) =>
        LET s2 == Step(sc, st) IN FrameOf(s2, n) = d /\ s2[d].vars[n].v = sc[d].vars[n].v /\ s2[d].vars[n].r
\* leaving a function restores exactly what was visible before entering it, unless the body changed outer variables itself
EnterLeaveNeutral(sc) == Step(Step(sc, [op |-> "enter", n |-> "", v |-> UNSET, w |-> ""]), [op |-> "leave", n |-> "", v |-> UNSET, w |-> ""]) = sc
=============================================================================
