------------------------------ MODULE MC_Arith ------------------------------
(* Exhaustive evaluation of Arith.tla over families of token sequences (C07).  One state per (family, chunk);
   the invariant prints one ROW per expression: the tokens, the initial value of x, and the model's result
   (status, value, variables afterwards, undefined-behaviour flag, fully parenthesised form).                *)
EXTENDS Arith, Json, FiniteSets

CONSTANTS Fams, NChunks, Stride, Phase

N(base, ds) == Tok("num", [base |-> base, ds |-> ds])
Op(o) == Tok("op", o)
Id(n) == Tok("id", n)
LP == Tok("(", "")
RP == Tok(")", "")
D9 == <<9, 2, 2, 3, 3, 7, 2, 0, 3, 6, 8, 5, 4, 7, 7, 5, 8, 0>>       \* 922337203685477580
MAXD == D9 \o <<7>>                                                  \* 9223372036854775807
MINUD == D9 \o <<8>>                                                 \* 9223372036854775808 (wraps to MIN)
\* operands: token sequences
Opnds == << <<N(10, <<0>>)>>, <<N(10, <<1>>)>>, <<Op("-"), N(10, <<1>>)>>, <<N(10, <<2>>)>>, <<N(10, <<3>>)>>, <<Op("-"), N(10, <<7>>)>>, <<N(10, <<6, 3>>)>>, <<N(10, <<6, 4>>)>>,
            <<N(10, <<2, 1, 4, 7, 4, 8, 3, 6, 4, 8>>)>>, <<N(10, MAXD)>>, <<Op("-"), N(10, MINUD)>>, <<N(10, MINUD)>>,
            <<N(10, <<1, 8, 4, 4, 6, 7, 4, 4, 0, 7, 3, 7, 0, 9, 5, 5, 1, 6, 1, 5>>)>>, <<N(10, <<9, 9, 9, 9, 9, 9, 9, 9, 9, 9, 9, 9, 9, 9, 9, 9, 9, 9, 9, 9>>)>>,
            <<N(16, <<15, 15>>)>>, <<N(16, <<7, 15, 15, 15, 15, 15, 15, 15, 15, 15, 15, 15, 15, 15, 15, 15>>)>>, <<N(16, <<15, 15, 15, 15, 15, 15, 15, 15, 15, 15, 15, 15, 15, 15, 15, 15>>)>>,
            <<N(8, <<1, 0>>)>>, <<N(8, <<7, 7, 7>>)>>, <<N(2, <<1, 0, 1>>)>>, <<N(36, <<35>>)>>, <<N(64, <<63>>)>>, <<N(64, <<62, 36>>)>>, <<N(37, <<36>>)>>,
            <<Id("x")>>, <<Id("y")>>, <<Id("z")>>, <<Id("e")>> >>
NOp == Len(Opnds)
Small == <<1, 2, 3, 4, 5, 6, 7, 8, 10, 11, 25, 26>>          \* indices into Opnds used where the product of choices would explode
BinOps == <<"+", "-", "*", "/", "%", "**", "<<", ">>", "<", ">", "<=", ">=", "==", "!=", "&", "^", "|", "&&", "||", ",">>
UnOps == <<"!", "~", "-", "+">>
AsgOpSeq == <<"=", "*=", "/=", "%=", "+=", "-=", "<<=", ">>=", "&=", "^=", "|=">>
IncForms == << <<Id("x"), Op("++")>>, <<Op("++"), Id("x")>>, <<Id("x"), Op("--")>>, <<Op("--"), Id("x")>>, <<Id("x")>>, <<Id("y"), Op("++")>>, <<Op("--"), Id("y")>>, <<N(10, <<2>>)>> >>
Triples == << <<5, 4, 3>>, <<2, 1, 3>>, <<6, 5, 4>>, <<9, 4, 8>>, <<10, 2, 4>>, <<3, 7, 2>> >>     \* operand index triples for the flat families

\* initial environments: x varies by family
Env0(xk) == [n \in {"x", "y", "z", "w", "e", "v", "bad", "cyc", "oc", "hx", "ng"} |->
               CASE n = "x" -> (CASE xk = 1 -> [k |-> "val", w |-> FromSmall(5)] [] xk = 2 -> [k |-> "val", w |-> MinInt] [] xk = 3 -> [k |-> "unset"] [] xk = 4 -> [k |-> "val", w |-> MinusOne])
                 [] n = "y" -> [k |-> "unset"]
                 [] n = "z" -> [k |-> "toks", toks |-> <<Id("x"), Op("+"), N(10, <<1>>)>>]
                 [] n = "w" -> [k |-> "toks", toks |-> <<Id("z"), Op("*"), N(10, <<2>>)>>]
                 [] n = "e" -> [k |-> "toks", toks |-> <<>>]
                 [] n = "v" -> [k |-> "toks", toks |-> <<Id("y")>>]
                 [] n = "bad" -> [k |-> "toks", toks |-> <<N(10, <<1>>), Op("+")>>]
                 [] n = "cyc" -> [k |-> "toks", toks |-> <<Id("cyc"), Op("+"), N(10, <<1>>)>>]
                 \* contents that are numerals in another base: a variable's text is read by the same reader as the expression (010 is 8)
                 [] n = "oc" -> [k |-> "toks", toks |-> <<N(8, <<1, 0>>)>>]
                 [] n = "hx" -> [k |-> "toks", toks |-> <<N(16, <<1, 15>>)>>]
                 [] n = "ng" -> [k |-> "toks", toks |-> <<Op("-"), N(8, <<1, 7>>)>>]]

Pair(t, xk) == [toks |-> t, xk |-> xk]
Md(a, b) == a % b
TreeAt(k) ==
  LET a == Md(k * 7, Len(Small)) + 1
      b == Md(k * 5 + 3, Len(Small)) + 1
      cc == Md((k \div 3) + 1, Len(Small)) + 1
      d == Md((k \div 7) + k, Len(Small)) + 1
      o1 == Md(k * 3, 20) + 1
      o2 == Md(k * 11 + (k \div 20), 20) + 1
      o3 == Md(k * 13 + (k \div 400), 20) + 1
  IN Pair(<<LP>> \o Opnds[Small[a]] \o <<Op(BinOps[o1])>> \o Opnds[Small[b]] \o <<RP, Op(BinOps[o2]), LP>> \o Opnds[Small[cc]] \o <<Op(BinOps[o3])>> \o Opnds[Small[d]] \o <<RP>>, 1)
Exprs(f) ==
  CASE f = "bin" -> {Pair(Opnds[a] \o <<Op(BinOps[o])>> \o Opnds[b], 1) : a \in 1..NOp, b \in 1..NOp, o \in 1..Len(BinOps)}
    [] f = "flat3" -> {Pair(Opnds[Triples[t][1]] \o <<Op(BinOps[o1])>> \o Opnds[Triples[t][2]] \o <<Op(BinOps[o2])>> \o Opnds[Triples[t][3]], 1) :
                           t \in 1..Len(Triples), o1 \in 1..Len(BinOps), o2 \in 1..Len(BinOps)}
    [] f = "flat4" -> {Pair(<<N(10, <<7>>), Op(BinOps[o1]), N(10, <<3>>), Op(BinOps[o2]), N(10, <<2>>), Op(BinOps[o3]), N(10, <<5>>)>>, 1) :
                           o1 \in 1..Len(BinOps), o2 \in 1..Len(BinOps), o3 \in 1..Len(BinOps)}
    [] f = "un" -> {Pair(<<Op(UnOps[u])>> \o Opnds[Small[a]] \o <<Op(BinOps[o])>> \o Opnds[Small[b]], 1) : u \in 1..4, a \in 1..Len(Small), b \in {2, 3, 4, 6}, o \in 1..Len(BinOps)}
               \cup {Pair(Opnds[Small[a]] \o <<Op(BinOps[o]), Op(UnOps[u])>> \o Opnds[Small[b]], 1) : u \in 1..4, a \in {2, 3, 4, 6}, b \in 1..Len(Small), o \in 1..Len(BinOps)}
               \cup {Pair(<<Op(UnOps[u1]), Op(UnOps[u2])>> \o Opnds[a], 1) : u1 \in 1..4, u2 \in 1..4, a \in 1..NOp}
    [] f = "asg" -> {Pair(<<Id("x"), Op(AsgOpSeq[o])>> \o Opnds[a], xk) : o \in 1..Len(AsgOpSeq), a \in 1..NOp, xk \in 1..4}
               \cup {Pair(<<Id("x"), Op(AsgOpSeq[o1]), Id("y"), Op(AsgOpSeq[o2])>> \o Opnds[Small[a]], 1) : o1 \in 1..Len(AsgOpSeq), o2 \in 1..Len(AsgOpSeq), a \in 1..Len(Small)}
               \cup {Pair(<<Id("x"), Op(AsgOpSeq[o])>> \o Opnds[Small[a]] \o <<Op(BinOps[b])>> \o Opnds[Small[c]], 1) : o \in 1..Len(AsgOpSeq), a \in {2, 4}, c \in {3, 5}, b \in 1..Len(BinOps)}
    [] f = "inc" -> {Pair(IncForms[a] \o <<Op(o)>> \o IncForms[b], xk) : a \in 1..Len(IncForms), b \in 1..Len(IncForms), o \in {"+", "-", "*", ",", "&&", "||", "<", "**"}, xk \in {1, 2}}
               \cup {Pair(<<Id("x"), Op(AsgOpSeq[o])>> \o IncForms[a] \o <<Op("+")>> \o IncForms[b], 1) : o \in 1..Len(AsgOpSeq), a \in 1..4, b \in 1..5}
    [] f = "cond" -> {Pair(Opnds[Small[a]] \o <<Op("?")>> \o Opnds[Small[b]] \o <<Op(":")>> \o Opnds[Small[c]] \o <<Op("?")>> \o Opnds[Small[d]] \o <<Op(":"), N(10, <<9>>)>>, 1) :
                           a \in 1..4, b \in 1..4, c \in 1..4, d \in 1..4}
               \cup {Pair(Opnds[Small[a]] \o <<Op("?")>> \o Opnds[Small[b]] \o <<Op("?"), N(10, <<8>>), Op(":")>> \o Opnds[Small[c]] \o <<Op(":"), N(10, <<9>>)>>, 1) : a \in 1..4, b \in 1..4, c \in 1..4}
               \cup {Pair(Opnds[Small[a]] \o <<Op("?"), LP, Id("x"), Op("="), N(10, <<1>>), RP, Op(":"), LP, Id("y"), Op("="), N(10, <<2>>), RP>>, 1) : a \in 1..Len(Small)}
               \cup {Pair(Opnds[Small[a]] \o <<Op(o), LP, Id("x"), Op("="), N(10, <<9>>), RP>>, 1) : a \in 1..Len(Small), o \in {"&&", "||", ",", "+", "?"}}
               \cup {Pair(Opnds[Small[a]] \o <<Op("?"), Id("x"), Op("="), N(10, <<1>>), Op(":"), Id("y"), Op("="), N(10, <<2>>)>>, 1) : a \in 1..4}
               \cup {Pair(Opnds[Small[a]] \o <<Op(o1)>> \o Opnds[Small[b]] \o <<Op("?")>> \o Opnds[Small[c]] \o <<Op(o2)>> \o Opnds[Small[d]] \o <<Op(":"), N(10, <<9>>), Op(o1), N(10, <<2>>)>>, 1) :
                           a \in {1, 2}, b \in {2, 3}, c \in {3, 4}, d \in {1, 4}, o1 \in {"||", "+", "==", ","}, o2 \in {",", "=", "|", "<"}}
    [] f = "rec" -> {Pair(<<Id(n)>> \o <<Op(o)>> \o Opnds[Small[a]], xk) : n \in {"z", "w", "e", "v", "bad", "y", "oc", "hx", "ng"}, o \in {"+", "*", "&&", "||", ","}, a \in 1..Len(Small), xk \in {1, 3}}
               \cup {Pair(<<Id(n), Op(o)>> \o Opnds[Small[a]], 1) : n \in {"z", "w", "e", "v"}, o \in {"=", "+=", "*="}, a \in 1..6}
               \cup {Pair(<<Op(o), Id(n)>>, 1) : n \in {"z", "w", "e", "v", "bad", "cyc", "oc", "hx", "ng"}, o \in {"++", "--", "-", "!"}}
               \cup {Pair(<<Id("cyc")>>, 1), Pair(<<N(10, <<0>>), Op("&&"), Id("cyc")>>, 1), Pair(<<N(10, <<1>>), Op("||"), Id("cyc")>>, 1), Pair(<<Id("x"), Op("="), Id("cyc")>>, 1)}
    [] f = "err" -> {Pair(t, 1) : t \in { <<N(10, <<1>>), Op("+")>>, <<Op("+")>>, <<LP, N(10, <<1>>)>>, <<N(10, <<1>>), RP>>, <<N(10, <<1>>), N(10, <<2>>)>>, <<Id("x"), Id("y")>>,
                                         <<N(10, <<1>>), Op("?"), N(10, <<2>>)>>, <<N(10, <<1>>), Op(":"), N(10, <<2>>)>>, <<Op("++"), N(10, <<1>>)>>, <<N(10, <<1>>), Op("++")>>,
                                         <<Id("x"), Op("=")>>, <<Op("="), N(10, <<1>>)>>, <<N(10, <<1>>), Op("="), N(10, <<2>>)>>, <<LP, RP>>, <<Op("*"), N(10, <<2>>)>>, <<N(10, <<2>>), Op("*"), Op("*")>>,
                                         <<N(10, <<1>>), Op(","), Op(",")>>, <<Id("x"), Op("+="), Op("=")>>, <<LP, Id("x"), RP, Op("="), N(10, <<2>>)>>, <<Id("x"), Op("++"), Op("++")>>,
                                         <<N(10, <<1>>), Op("/"), N(10, <<0>>), Op("||"), N(10, <<1>>)>>, <<N(10, <<1>>), Op("||"), N(10, <<1>>), Op("/"), N(10, <<0>>)>>,
                                         <<N(10, <<0>>), Op("&&"), N(10, <<1>>), Op("%"), N(10, <<0>>)>>, <<N(10, <<1>>), Op("?"), N(10, <<2>>), Op(":"), N(10, <<1>>), Op("/"), N(10, <<0>>)>>,
                                         <<Id("x"), Op("="), N(10, <<7>>), Op(","), N(10, <<1>>), Op("/"), N(10, <<0>>)>>, <<N(10, <<2>>), Op("**"), Op("-"), N(10, <<1>>)>>,
                                         <<N(8, <<9>>)>>, <<N(8, <<1, 8>>)>>, <<N(2, <<2>>)>>, <<N(65, <<1>>)>>, <<N(1, <<0>>)>>, <<N(16, <<>>)>>, <<>>, <<Id("bad")>>, <<Op("-"), Op("-"), N(10, <<3>>)>> }}
    [] f = "tree" -> {TreeAt(kk + Phase * Stride) : kk \in 1..Stride}

Hash(t) == Len(t) * 7 + Cardinality({i \in 1..Len(t) : t[i].t = "op" /\ t[i].v \in {"+", "*", "<", "&&", "=", "++"}}) * 3

VarOut(env, n) == LET e == env[n] IN CASE e.k = "unset" -> [k |-> "unset"] [] e.k = "toks" -> [k |-> "same"] [] e.k = "val" -> [k |-> "val", w |-> e.w]
Row(f, p) == LET r == Run(p.toks, Env0(p.xk))  pp == Parse(p.toks) IN
             [fam |-> f, toks |-> p.toks, xk |-> p.xk, st |-> r.st, und |-> r.und, val |-> r.w,
              x |-> VarOut(r.env, "x"), y |-> VarOut(r.env, "y"), z |-> VarOut(r.env, "z"),
              full |-> IF pp.ok THEN Unparse(pp.ast) ELSE <<>>]

VARIABLE c
Init == c = <<>>
Next == \/ /\ c = <<>> /\ \E f \in Fams : c' = <<f>>
        \/ /\ Len(c) = 1 /\ \E k \in 0..(NChunks - 1) : c' = <<c[1], k>>
Emit == Len(c) < 2 \/ \A p \in Exprs(c[1]) : (Hash(p.toks) + p.xk) % NChunks = c[2] =>
                         PrintT(<<"ROW", ToJson(Row(c[1], p))>>)
=============================================================================
