CONSTANTS
  MaxJobs = 8
  DEV = {}
  PollEnabled = TRUE
SPECIFICATION TraceSpec
INVARIANTS DistinctIds WaitComplete WaitedEnded NoLostJob
POSTCONDITION Report
CHECK_DEADLOCK FALSE
