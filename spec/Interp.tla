------------------------------- MODULE Interp -------------------------------
(* The command interpreter of brush as a small-step continuation machine
   (brush-core/src/interp.rs, results.rs, commands.rs, shell/traps.rs, shell/execution.rs).

   Properties decided with it: C02 (control flow, $?), C03 (errexit / nounset / pipefail),
   C16 (EXIT / ERR traps), and through the same programs C15a (delivery modes) and C18 (leaks).

   Programs come from InterpGen.tla (or any producer of the same JSON) through IOEnv.PROGS, one
   JSON object per line: {"id": .., "P": [node, ...]}; node = [t, a, b, c, n, m].
   The machine is deterministic; TLC runs every program to termination, checks the invariants
   in every intermediate state and emits the predicted observable of each program:
   the sequence of markers (each with the $? it saw) and the exit status.

   State
     sh    stack of shell contexts; `( )`, `$( )` and pipeline stages push a *clone*
           (Shell::clone in the code).  st = $?, ld = loop depth, fd = function depth,
           ctr = call counters of the scripted leaves Q / K, o = options, tx / te = EXIT / ERR
           handler (node index, 0 = none).
     k     continuation stack of frames [i, ph, last, sup, kind, pend]
           sup  = errexit is being ignored for this frame (ExecutionParameters::suppress_errexit)
           kind = "node" | "herr" | "hexit" (trap handler invocation frames)
     mode  "eval": start the node of the top frame; "ret": the top frame consumes result r
     r     the ExecutionResult being returned: [st, cf, lv]  cf in n | b | c | r | x | X(exec)
   Named deviations of the pinned implementation are the elements of DEV (empty = ideal = bash). *)
EXTENDS Naturals, Integers, Sequences, FiniteSets, TLC, Json, IOUtils

CONSTANTS DEV          \* set of as-built deviation names that are switched on

Progs == ndJsonDeserialize(IOEnv.PROGS)

VARIABLES pi, k, mode, r, sh, out, phase, xruns, code,
          gh      \* ghost counters (evidence only): flow crossings, errexit exits, suppressed failures, ERR runs
vars == <<pi, k, mode, r, sh, out, phase, xruns, code, gh>>

P == Progs[pi].P

\* ------------------------------------------------------------------ helpers
R(st, cf, lv) == [st |-> st, cf |-> cf, lv |-> lv]
Frame(i, sup) == [i |-> i, ph |-> 0, last |-> 0, sup |-> sup, kind |-> "node", pend |-> R(0, "n", 0)]
HFrame(kind, i, saved, pend) == [i |-> i, ph |-> 0, last |-> saved, sup |-> FALSE, kind |-> kind, pend |-> pend]
Top == k[Len(k)]
Cur == sh[Len(sh)]
Pop == SubSeq(k, 1, Len(k) - 1)
SetTop(f) == [k EXCEPT ![Len(k)] = f]
SetCur(c) == [sh EXCEPT ![Len(sh)] = c]
MinN(x, y) == IF x < y THEN x ELSE y
Ctr(i) == IF i \in DOMAIN Cur.ctr THEN Cur.ctr[i] ELSE 0
CtrSet(i, v) == [j \in (DOMAIN Cur.ctr) \cup {i} |-> IF j = i THEN v ELSE Cur.ctr[j]]
Opts0 == [e |-> FALSE, u |-> FALSE, pf |-> FALSE, ie |-> FALSE, E |-> FALSE]
Sh0 == [st |-> 0, ld |-> 0, fd |-> 0, ctr |-> <<>>, o |-> Opts0, tx |-> 0, te |-> 0]

InHandler(kind) == \E j \in 1..Len(k) : k[j].kind = kind

\* The declarative statement of "errexit is being ignored here" (C03): some enclosing frame is
\* executing a child in an exempt position.  TLC checks it coincides with the copied flag.
ExemptPos(f) ==
  LET nd == P[f.i] IN
  /\ f.kind = "node"
  /\ \/ nd.t \in {"and", "or"} /\ f.ph = 1
     \/ nd.t = "not" /\ f.ph = 1
     \/ nd.t = "if" /\ f.ph = 1
     \/ nd.t = "while" /\ f.ph = 1
ExemptDecl == \E j \in 1..(Len(k) - 1) : ExemptPos(k[j]) /\ ~(\E h \in (j+1)..Len(k) : k[h].kind # "node")

\* errexit / ERR apply to results of: simple commands, function calls, eval, ( ), pipelines.
Failing(res, sup) == res.cf = "n" /\ res.st # 0 /\ ~sup
\* what arms the ERR trap.  Ideal (bash): a command that failed.  DEV ErrTrapOnAnyFlow (interp.rs
\* Pipeline::execute tests only `!result.is_success()`): also an exit / return request carrying a
\* non-zero status, at every pipeline it passes through.
FailErr(res, sup) == /\ res.st # 0 /\ ~sup
                     /\ (res.cf = "n" \/ ("ErrTrapOnAnyFlow" \in DEV /\ res.cf \in {"x", "r"}))
ApplyErrexit(res, sup) == IF Failing(res, sup) /\ Cur.o.e THEN [res EXCEPT !.cf = "x"] ELSE res

\* Deliver `res` as the result of the command in the top frame (a command boundary):
\* pops the frame; fires the ERR handler first if armed.
Deliver(res, sup, o, shNew) ==
  LET cur == shNew[Len(shNew)] IN
  \* the ERR handler does not re-enter itself, but it does fire for failures inside the EXIT handler
  IF FailErr(res, sup) /\ cur.te # 0 /\ (cur.fd = 0 \/ cur.o.E) /\ ~InHandler("herr")
  THEN /\ k' = Append(Append(Pop, HFrame("herr", cur.te, res.st, IF cur.o.e /\ res.cf = "n" THEN [res EXCEPT !.cf = "x"] ELSE res)),
                      Frame(P[cur.te].a, FALSE))
       /\ mode' = "eval" /\ r' = res /\ out' = o
       /\ sh' = [shNew EXCEPT ![Len(shNew)].st = res.st]
       /\ gh' = [gh EXCEPT !.err = @ + 1, !.ex = @ + (IF cur.o.e THEN 1 ELSE 0)]
  ELSE /\ k' = Pop /\ mode' = "ret" /\ out' = o
       /\ gh' = [gh EXCEPT !.ex = @ + (IF Failing(res, sup) /\ cur.o.e THEN 1 ELSE 0),
                           !.sup = @ + (IF res.cf = "n" /\ res.st # 0 /\ sup /\ cur.o.e THEN 1 ELSE 0),
                           !.flow = @ + (IF res.cf # "n" THEN 1 ELSE 0),
                           !.fatal = @ + (IF res.cf = "f" THEN 1 ELSE 0)]
       /\ r' = IF Failing(res, sup) /\ cur.o.e THEN [res EXCEPT !.cf = "x"] ELSE res
       /\ sh' = [shNew EXCEPT ![Len(shNew)].st = res.st]

\* Return `res` from a construct that is not itself an errexit point.
Pass(res, shNew) == /\ k' = Pop /\ mode' = "ret" /\ r' = res /\ sh' = shNew /\ UNCHANGED out
                    /\ gh' = [gh EXCEPT !.flow = @ + (IF res.cf # "n" THEN 1 ELSE 0)]

PushChild(f, child, sup, shNew) ==
  /\ k' = Append(SetTop(f), Frame(child, sup)) /\ mode' = "eval" /\ sh' = shNew /\ UNCHANGED <<r, out, gh>>

\* what a subshell-like clone starts with (Shell::clone + what bash resets in a subshell)
Clone(keepE) == [Cur EXCEPT !.ld = 0, !.tx = 0, !.te = IF Cur.o.E THEN @ ELSE 0,
                            !.o = IF keepE THEN @ ELSE [@ EXCEPT !.e = FALSE]]

\* ------------------------------------------------------------------ leaves
\* break n / continue n.  Ideal (bash): no-op outside loops, n clamped to the loop depth.
\* DEV BreakNotClamped (brush-builtins break_.rs / continue_.rs): the count is not clamped, so the
\* surplus levels escape the outermost loop (and end the script, or fail the function with 99).
BreakLike(nd, kind) ==
  IF Cur.ld = 0 THEN R(0, "n", 0)
  ELSE IF "BreakNotClamped" \in DEV THEN R(0, kind, nd.n - 1)
  ELSE R(0, kind, MinN(nd.n, Cur.ld) - 1)

EvalLeaf ==
  LET f == Top  nd == P[f.i] IN
  /\ mode = "eval" /\ f.kind = "node"
  /\ nd.t \in {"M", "X", "T", "S", "L", "brk", "cont", "kc", "ret", "exit", "seto", "us", "fe", "trapx", "trape", "trapr", "execx"}
  /\ CASE nd.t = "M"    -> Deliver(R(nd.m, "n", 0), f.sup, Append(out, <<"m", f.i, Cur.st>>), sh)
       [] nd.t = "X"    -> Deliver(R(nd.m, "n", 0), f.sup, Append(out, <<"x", f.i>>), sh)
       [] nd.t = "T"    -> Deliver(R(Cur.st, "n", 0), f.sup, Append(out, <<"t", f.i, Cur.st>>), sh)
       [] nd.t = "S"    -> Deliver(R(nd.m, "n", 0), f.sup, out, sh)
       [] nd.t = "L"    -> Deliver(R(0, "n", 0), f.sup, Append(out, <<"l", f.i>>), sh)      \* `echo "l<i>:$LINENO"` (C15: the line is the renderer's)
       [] nd.t = "brk"  -> Deliver(BreakLike(nd, "b"), f.sup, out, sh)
       [] nd.t = "cont" -> Deliver(BreakLike(nd, "c"), f.sup, out, sh)
       [] nd.t = "kc"   ->            \* `K i && continue n` : continue on the first visit only
             LET cnt == Ctr(f.i) + 1
                 sh1 == SetCur([Cur EXCEPT !.ctr = CtrSet(f.i, cnt)])
                 o   == Append(out, <<"k", f.i, cnt, Cur.st>>) IN
             IF cnt = 1 THEN Deliver(BreakLike(nd, "c"), TRUE, o, sh1)
             ELSE Deliver(R(1, "n", 0), TRUE, o, sh1)          \* non-final && operand: exempt
       [] nd.t = "ret"  -> IF Cur.fd = 0 THEN Deliver(R(2, "n", 0), f.sup, out, sh)
                           ELSE Deliver(R(nd.n, "r", 0), f.sup, out, sh)
       [] nd.t = "exit" -> Deliver(R(nd.n, "x", 0), f.sup, out, sh)
       [] nd.t = "execx" -> Deliver(R(nd.n, "X", 0), f.sup, Append(out, <<"x", f.i>>), sh)
       [] nd.t = "seto" ->
             LET v == nd.m = 1
                 o1 == CASE nd.n = 1 -> [Cur.o EXCEPT !.e = v] [] nd.n = 2 -> [Cur.o EXCEPT !.u = v]
                         [] nd.n = 3 -> [Cur.o EXCEPT !.pf = v] [] nd.n = 4 -> [Cur.o EXCEPT !.ie = v]
                         [] OTHER -> [Cur.o EXCEPT !.E = v] IN
             Deliver(R(0, "n", 0), f.sup, out, SetCur([Cur EXCEPT !.o = o1]))
       [] nd.t = "us"   -> IF Cur.o.u                      \* `: $unset` : fatal under nounset
                           THEN Deliver(R(127, "f", 0), f.sup, out, sh)
                           ELSE Deliver(R(0, "n", 0), f.sup, out, sh)
       [] nd.t = "fe"   -> Deliver(R(127, "f", 0), f.sup, out, sh)   \* `: ${unset:?}`
             \* cf = "f": a fatal expansion error.  It travels like an exit request (in the code: a Rust Err
             \* propagated with `?`) up to the nearest function call / eval / subshell / top level, where it
             \* becomes an ordinary exit ("x").  The distinction only matters for DEV ErrTrapOnAnyFlow.
             \* The status of a fatal expansion error is only required to be non-zero (POSIX); bash itself
             \* uses 127 or 1 depending on errexit and on the kind of subshell.  The model says 127 and the
             \* driver identifies 1 and 127 when comparing programs whose run counted gh.fatal > 0.
       [] nd.t = "trapx" -> Deliver(R(0, "n", 0), f.sup, out, SetCur([Cur EXCEPT !.tx = f.i]))
       [] nd.t = "trape" -> Deliver(R(0, "n", 0), f.sup, out, SetCur([Cur EXCEPT !.te = f.i]))
       [] nd.t = "trapr" -> Deliver(R(0, "n", 0), f.sup, out,
                                    SetCur(IF nd.n = 0 THEN [Cur EXCEPT !.tx = 0] ELSE [Cur EXCEPT !.te = 0]))
  /\ UNCHANGED <<pi, phase, xruns, code>>

\* ------------------------------------------------------------------ entering constructs
\* loop test of while/until (scripted leaf Q): count this evaluation, then body or leave
CondQ(f, nd, shIn, o0) ==
  LET cur == shIn[Len(shIn)]
      cnt == (IF f.i \in DOMAIN cur.ctr THEN cur.ctr[f.i] ELSE 0) + 1
      ctr1 == [j \in (DOMAIN cur.ctr) \cup {f.i} |-> IF j = f.i THEN cnt ELSE cur.ctr[j]]
      o == Append(o0, <<"q", f.i, cnt, cur.st>>)
      go == cnt <= nd.n
      qst == IF go = (nd.m = 0) THEN 0 ELSE 1 IN            \* status Q returns
  IF go
  THEN /\ k' = Append(SetTop([f EXCEPT !.ph = 2]), Frame(nd.a, f.sup)) /\ mode' = "eval"
       /\ sh' = [shIn EXCEPT ![Len(shIn)] = [cur EXCEPT !.st = qst, !.ctr = ctr1]]
       /\ out' = o /\ UNCHANGED <<r, gh>>
  ELSE /\ k' = Pop /\ mode' = "ret" /\ r' = R(f.last, "n", 0) /\ out' = o /\ UNCHANGED gh
       /\ sh' = [shIn EXCEPT ![Len(shIn)] = [cur EXCEPT !.st = f.last, !.ctr = ctr1, !.ld = @ - 1]]

LoopTest(f, nd, shIn) ==
  IF nd.c # 0
  THEN /\ k' = Append(SetTop([f EXCEPT !.ph = 1]), Frame(nd.c, TRUE)) /\ mode' = "eval" /\ sh' = shIn /\ UNCHANGED <<r, out, gh>>
  ELSE CondQ(f, nd, shIn, out)

CaseNext(nd, from) == LET S == {j \in from..3 : (CASE j = 1 -> nd.a [] j = 2 -> nd.b [] OTHER -> nd.c) # 0 /\ (nd.n \div (2^(j-1))) % 2 = 1} IN
                      IF S = {} THEN 0 ELSE CHOOSE j \in S : \A h \in S : j <= h
CaseArm(nd, j) == CASE j = 1 -> nd.a [] j = 2 -> nd.b [] OTHER -> nd.c
CaseTerm(nd, j) == (nd.m \div (3^(j-1))) % 3       \* 0 ;;   1 ;&   2 ;;&

EvalEnter ==
  LET f == Top  nd == P[f.i] IN
  /\ mode = "eval" /\ f.kind = "node"
  /\ nd.t \in {"seq", "and", "or", "not", "grp", "sub", "if", "while", "for", "afor", "case", "fn", "eval", "cs", "pipe"}
  /\ CASE nd.t \in {"seq", "grp", "eval"} -> PushChild([f EXCEPT !.ph = 1], nd.a, f.sup, sh)
       [] nd.t \in {"and", "or", "not"} -> PushChild([f EXCEPT !.ph = 1], nd.a, TRUE, sh)
       [] nd.t = "if" -> PushChild([f EXCEPT !.ph = 1], nd.c, TRUE, sh)
       [] nd.t = "sub" -> PushChild([f EXCEPT !.ph = 1], nd.a, f.sup, Append(sh, Clone(TRUE)))
       [] nd.t = "cs" -> PushChild([f EXCEPT !.ph = 1], nd.a, f.sup, Append(sh, Clone(Cur.o.ie)))
       [] nd.t = "pipe" ->
             IF nd.a # 0 THEN PushChild([f EXCEPT !.ph = 1], nd.a, f.sup, Append(sh, Clone(TRUE)))
             ELSE IF nd.b # 0 THEN PushChild([f EXCEPT !.ph = 2], nd.b, f.sup, Append(sh, Clone(TRUE)))
             ELSE LET st == IF Cur.o.pf /\ nd.m = 0 THEN nd.n ELSE nd.m IN
                  Deliver(R(st, "n", 0), f.sup, out, sh)
       [] nd.t = "fn" ->      \* definition (a command: $? = 0), then the call
             PushChild([f EXCEPT !.ph = 1, !.last = Cur.ld], nd.a, f.sup,
                       SetCur([Cur EXCEPT !.fd = @ + 1, !.ld = 0, !.st = 0]))
       [] nd.t = "while" -> LoopTest(f, nd, SetCur([Cur EXCEPT !.ld = @ + 1]))
       [] nd.t \in {"for", "afor"} ->
             IF nd.n = 0 THEN Pass(R(0, "n", 0), SetCur([Cur EXCEPT !.st = 0]))
             ELSE PushChild([f EXCEPT !.ph = 1], nd.a, f.sup, SetCur([Cur EXCEPT !.ld = @ + 1]))
       [] nd.t = "case" ->
             LET j == CaseNext(nd, 1) IN
             IF j = 0 THEN Pass(R(0, "n", 0), SetCur([Cur EXCEPT !.st = 0]))
             ELSE PushChild([f EXCEPT !.ph = j], CaseArm(nd, j), f.sup, sh)
  /\ UNCHANGED <<pi, phase, xruns, code>>

\* ------------------------------------------------------------------ consuming results
LeaveLoop(res) == Pass(res, SetCur([Cur EXCEPT !.ld = @ - 1, !.st = res.st]))

\* what a loop frame does with the result of its body (or of its condition prefix)
LoopFlow(f, again) ==
  CASE r.cf \in {"r", "x", "X", "f"} -> LeaveLoop(r)
    [] r.cf = "b" -> LeaveLoop(IF r.lv = 0 THEN R(r.st, "n", 0) ELSE R(r.st, "b", r.lv - 1))
    [] r.cf = "c" /\ r.lv > 0 -> LeaveLoop(R(r.st, "c", r.lv - 1))
    [] OTHER -> again

RetList ==
  LET f == Top  nd == P[f.i] IN
  /\ mode = "ret" /\ k # <<>> /\ f.kind = "node" /\ nd.t \in {"seq", "and", "or", "not", "grp", "if"}
  /\ CASE nd.t = "seq" ->
            IF f.ph = 1 /\ r.cf = "n" THEN PushChild([f EXCEPT !.ph = 2], nd.b, f.sup, sh) ELSE Pass(r, sh)
       [] nd.t \in {"and", "or"} ->
            IF f.ph = 1 /\ r.cf = "n" /\ ((nd.t = "and") = (r.st = 0))
            THEN PushChild([f EXCEPT !.ph = 2], nd.b, f.sup, sh) ELSE Pass(r, sh)
       [] nd.t = "not" ->
            IF r.cf \in {"n", "b", "c"} \/ "BangInvertsExit" \in DEV
            THEN LET s == IF r.st = 0 THEN 1 ELSE 0 IN Pass([r EXCEPT !.st = s], SetCur([Cur EXCEPT !.st = s]))
            ELSE Pass(r, sh)
       [] nd.t = "grp" -> Pass(r, sh)
       [] nd.t = "if" ->
            IF f.ph = 1 /\ r.cf = "n"
            THEN IF r.st = 0 THEN PushChild([f EXCEPT !.ph = 2], nd.a, f.sup, sh)
                 ELSE IF nd.b # 0 THEN PushChild([f EXCEPT !.ph = 2], nd.b, f.sup, sh)
                 ELSE Pass(R(0, "n", 0), SetCur([Cur EXCEPT !.st = 0]))
            ELSE Pass(r, sh)
  /\ UNCHANGED <<pi, phase, xruns, code>>

RetLoop ==
  LET f == Top  nd == P[f.i] IN
  /\ mode = "ret" /\ k # <<>> /\ f.kind = "node" /\ nd.t \in {"while", "for", "afor", "case"}
  /\ CASE nd.t = "while" ->
            IF f.ph = 1            \* the condition prefix returned
            THEN CASE r.cf \in {"r", "x", "X", "f"} -> LeaveLoop(r)
                   \* bash (execute_while_or_until): the test "returns" the status carried by the flow
                   \* (0 for break/continue, 1 under `!`).  If that status says "stop" the loop ends
                   \* normally with the pending flow decremented and the last body status ...
                   [] r.cf \in {"b", "c"} /\ ((nd.m = 0) = (r.st # 0)) ->
                        LeaveLoop(IF r.lv = 0 THEN R(f.last, "n", 0) ELSE R(f.last, r.cf, r.lv - 1))
                   \* ... otherwise the body "runs" with the flow pending and yields that status.
                   [] r.cf = "b" -> LeaveLoop(IF r.lv = 0 THEN R(r.st, "n", 0) ELSE R(r.st, "b", r.lv - 1))
                   [] r.cf = "c" /\ r.lv > 0 -> LeaveLoop(R(r.st, "c", r.lv - 1))
                   [] r.cf = "c" -> IF "ContinueInCondLeaves" \in DEV THEN LeaveLoop(R(r.st, "n", 0))
                                    ELSE LoopTest([f EXCEPT !.last = r.st], nd, sh)
                   [] OTHER -> CondQ(f, nd, sh, out)
            ELSE LoopFlow(f, LoopTest([f EXCEPT !.last = r.st], nd, sh))
       [] nd.t \in {"for", "afor"} ->
            LoopFlow(f, IF f.ph < nd.n THEN PushChild([f EXCEPT !.ph = @ + 1], nd.a, f.sup, sh)
                        ELSE LeaveLoop(R(r.st, "n", 0)))
       [] nd.t = "case" ->
            IF r.cf # "n" THEN Pass(r, sh)
            ELSE LET t == CaseTerm(nd, f.ph)
                     j == IF t = 0 THEN 0
                          ELSE IF t = 1 THEN (IF f.ph < 3 /\ CaseArm(nd, f.ph + 1) # 0 THEN f.ph + 1 ELSE 0)
                          ELSE (IF f.ph < 3 THEN CaseNext(nd, f.ph + 1) ELSE 0) IN
                 IF j = 0 THEN Pass(r, sh) ELSE PushChild([f EXCEPT !.ph = j], CaseArm(nd, j), f.sup, sh)
  /\ UNCHANGED <<pi, phase, xruns, code>>

\* boundaries that turn control flow into plain statuses and are errexit points themselves
RetBoundary ==
  LET f == Top  nd == P[f.i]  parent == SubSeq(sh, 1, Len(sh) - 1) IN
  /\ mode = "ret" /\ k # <<>> /\ f.kind = "node" /\ nd.t \in {"fn", "eval", "sub", "cs", "pipe"}
  /\ CASE nd.t = "fn" ->
            LET sh1 == SetCur([Cur EXCEPT !.fd = @ - 1, !.ld = f.last]) IN
            IF r.cf \in {"x", "f"} /\ "ErrTrapOnAnyFlow" \in DEV THEN Deliver(R(r.st, "x", 0), f.sup, out, sh1)
            ELSE IF r.cf \in {"x", "X", "f"} THEN Pass(R(r.st, IF r.cf = "X" THEN "X" ELSE "x", 0), sh1)
            ELSE IF r.cf \in {"b", "c"}     \* cannot happen in the ideal model (ld = 0 inside)
                 THEN Deliver(R(99, "n", 0), f.sup, out, sh1)
                 ELSE Deliver(R(r.st, "n", 0), f.sup, out, sh1)
       [] nd.t = "eval" -> IF r.cf = "n" \/ (r.cf \in {"x", "r", "f"} /\ "ErrTrapOnAnyFlow" \in DEV)
                           THEN Deliver(IF r.cf = "f" THEN R(r.st, "x", 0) ELSE r, f.sup, out, sh)
                           ELSE Pass(IF r.cf = "f" THEN R(r.st, "x", 0) ELSE r, sh)
       [] nd.t \in {"sub", "cs"} ->
            IF Cur.tx # 0 /\ ~InHandler("hexit") /\ r.cf # "X" /\ ~("SubshellExitTrapSkipped" \in DEV)
            THEN \* the subshell's own EXIT trap (set inside it) runs as it ends
                 /\ k' = Append(Append(k, HFrame("hexit", Cur.tx, r.st, r)), Frame(P[Cur.tx].a, FALSE))
                 /\ mode' = "eval" /\ sh' = SetCur([Cur EXCEPT !.st = r.st, !.tx = 0]) /\ UNCHANGED <<r, out, gh>>
            ELSE Deliver(R(r.st, "n", 0), f.sup, out, parent)
       [] nd.t = "pipe" ->
            IF f.ph = 1          \* first stage (general) done; last stage is the silent S m
            THEN LET st == IF Cur.o.pf /\ nd.m = 0 THEN r.st ELSE nd.m IN
                 Deliver(R(st, "n", 0), f.sup, out, parent)
            ELSE LET st == IF Cur.o.pf /\ r.st = 0 THEN nd.n ELSE r.st IN
                 Deliver(R(st, "n", 0), f.sup, out, parent)
  /\ UNCHANGED <<pi, phase, xruns, code>>

\* a trap handler finished
RetHandler ==
  LET f == Top IN
  /\ mode = "ret" /\ k # <<>> /\ f.kind \in {"herr", "hexit"}
  /\ IF f.kind = "herr"
     THEN IF r.cf \in {"x", "X", "f"}
          THEN Pass(r, IF "ErrTrapRearmedOnExit" \in DEV THEN sh   \* brush: guard dropped when the handler returns
                       ELSE SetCur([Cur EXCEPT !.te = 0]))   \* exit inside the ERR handler: what follows (the EXIT
                                                         \* handler) still runs "inside" it, so ERR cannot fire again
          ELSE Pass(f.pend, SetCur([Cur EXCEPT !.st = f.last]))       \* $? restored
     ELSE \* hexit: `exit m` inside the handler replaces the status
          LET st == IF r.cf \in {"x", "f"} /\ ~("ExitInExitTrapIgnored" \in DEV) THEN r.st ELSE f.last IN
          Pass(R(st, f.pend.cf, 0), SetCur([Cur EXCEPT !.st = st]))
  /\ UNCHANGED <<pi, phase, xruns, code>>

\* ------------------------------------------------------------------ termination of the shell
Terminate ==
  /\ phase = "run" /\ mode = "ret" /\ k = <<>>
  /\ IF Cur.tx # 0 /\ xruns = 0 /\ r.cf # "X"
     THEN /\ k' = <<HFrame("hexit", Cur.tx, r.st, R(r.st, "x", 0)), Frame(P[Cur.tx].a, FALSE)>>
          /\ mode' = "eval" /\ xruns' = 1 /\ sh' = SetCur([Cur EXCEPT !.st = r.st])
          /\ UNCHANGED <<pi, r, out, phase, code, gh>>
     ELSE /\ phase' = "done" /\ code' = r.st /\ UNCHANGED <<pi, k, mode, r, sh, out, xruns, gh>>

Init == /\ pi \in 1..Len(Progs)
        /\ k = <<Frame(Progs[pi].root, FALSE)>> /\ mode = "eval" /\ r = R(0, "n", 0)
        /\ sh = <<Sh0>> /\ out = <<>> /\ phase = "run" /\ xruns = 0 /\ code = 0
        /\ gh = [flow |-> 0, ex |-> 0, sup |-> 0, err |-> 0, fatal |-> 0]

Finished == phase = "done" /\ UNCHANGED vars       \* so that every other dead end is a TLC deadlock (stuck machine)
Next == EvalLeaf \/ EvalEnter \/ RetList \/ RetLoop \/ RetBoundary \/ RetHandler \/ Terminate \/ Finished
Spec == Init /\ [][Next]_vars /\ WF_vars(Next)

\* ------------------------------------------------------------------ properties of the model
LevelsOK == r.lv >= 0 /\ \A i \in 1..Len(sh) : sh[i].ld >= 0 /\ sh[i].fd >= 0
DoneClean == phase = "done" => (k = <<>> /\ Len(sh) = 1 /\ r.cf \in {"n", "x", "X", "f"})
\* a function boundary never passes break/continue; a subshell boundary passes only plain statuses
BoundaryOK == (mode = "ret" /\ k # <<>> /\ Top.kind = "node") =>
                 /\ (P[Top.i].t = "fn" /\ DEV = {} => r.cf \notin {"b", "c"})
SuppressAgrees == (mode = "eval" /\ k # <<>> /\ Top.kind = "node" /\ ~InHandler("herr") /\ ~InHandler("hexit"))
                     => (Top.sup = ExemptDecl)
ExitOnce == xruns <= 1
Bounded == Len(out) <= 400 /\ Len(k) <= 40 /\ TLCGet("level") < 2000     \* generated programs are finite by construction
Terminates == <>(phase = "done")

Emit == phase = "done" => PrintT(<<"CASE", ToJson([id |-> Progs[pi].id, out |-> out, exit |-> code, gh |-> gh, xruns |-> xruns])>>)
=============================================================================
