--------------------------- MODULE Trace_Pipeline ---------------------------
(* Trace validation for C11: the hook events of one pipeline execution
     pl_begin(n)  pl_stage(i, kind) ...  pl_spawned_all  pl_waited(i, st) ...
   must be main's part of a behaviour of Pipeline.tla: every stage is started, in order, before any is
   awaited (Spawn(1..n) then Wait(1..n) front to back), and a stage can only be reported awaited after it
   exited.  The stages' own reads / writes / exits are not logged: they are silent steps of the original
   actions, taken as needed between events (bounded: they do not consume trace lines).
   N is fixed per TLC run; the driver groups pipelines by length and renumbers them.                   *)
EXTENDS Pipeline, Json, IOUtils

Rec == ndJsonDeserialize(IOEnv.TRACE)
VARIABLE l
tvars == <<vars, l>>

TheCfg == [kind |-> [s \in Stages |-> "ext"], out |-> [s \in Stages |-> IF s < N THEN 1 ELSE 0], early |-> [s \in Stages |-> FALSE]]
Fresh == /\ cfg' = TheCfg /\ mpc' = <<"spawn", 1>> /\ st' = [s \in Stages |-> "new"] /\ pipe' = [p \in Pipes |-> <<>>]
         /\ wr' = [p \in Pipes |-> {0}] /\ rd' = [p \in Pipes |-> {0}]
         /\ left' = TheCfg.out /\ got' = [s \in Stages |-> <<>>] /\ eof' = [s \in Stages |-> FALSE]
         /\ status' = [s \in Stages |-> "-"]

IsEv(e) == l <= Len(Rec) /\ Rec[l].ev = e /\ l' = l + 1
TrBegin  == IsEv("pl_begin") /\ Rec[l].n = N /\ Fresh
TrStage  == IsEv("pl_stage") /\ Spawn(Rec[l].i)
TrAll    == IsEv("pl_spawned_all") /\ mpc = <<"wait", 1>> /\ UNCHANGED vars
TrWaited == IsEv("pl_waited") /\ Wait(Rec[l].i)
Silent   == /\ l <= Len(Rec) /\ \E s \in Stages : Read(s) \/ Write(s) \/ Exit(s)
            /\ UNCHANGED l

TraceInit == /\ cfg = TheCfg /\ mpc = <<"done">> /\ st = [s \in Stages |-> "exited"] /\ pipe = [p \in Pipes |-> <<>>]
             /\ wr = [p \in Pipes |-> {}] /\ rd = [p \in Pipes |-> {}] /\ left = [s \in Stages |-> 0]
             /\ got = [s \in Stages |-> <<>>] /\ eof = [s \in Stages |-> FALSE] /\ status = [s \in Stages |-> "-"] /\ l = 1
TraceNext == TrBegin \/ TrStage \/ TrAll \/ TrWaited \/ Silent
TraceSpec == TraceInit /\ [][TraceNext]_tvars

\* acceptance: the furthest trace position reached (register 1, updated from the constraint; -workers 1)
Track == IF l > TLCGet(1) THEN TLCSet(1, l) ELSE TRUE
Accepted == TLCGet(1) = Len(Rec) + 1
Report == Accepted \/ Print(<<"REJECTED_AT", TLCGet(1), IF TLCGet(1) <= Len(Rec) THEN Rec[TLCGet(1)] ELSE <<>>>>, FALSE)
ASSUME TLCSet(1, 0)
=============================================================================
