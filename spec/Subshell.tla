------------------------------- MODULE Subshell -------------------------------
(* Subshell isolation (C12): brush-core/src/shell.rs (impl Clone for Shell), interp.rs (Subshell, pipelines, background
   jobs), commands.rs (command substitution), builtins umask / ulimit / cd / exec / trap / alias / set / shopt.

   A subshell is a CLONE of the shell object running as a task in the same process.  The parent's state is a record of
   components; each mutator changes one component of whoever runs it.
     parent, child   component -> version number (a mutation bumps the version of its component)
     phase           "idle" | "in" (a subshell of kind ctx is running) | "done"
     prog            the mutators executed so far in the subshell (history, for emission)
   Isolation:  whatever the subshell does, the parent's record is unchanged when it has finished.
   DEV ProcessWideShared: components that live in the PROCESS rather than in the Shell object (umask, resource limits)
   are shared between parent and clone, so the subshell's change is the parent's too.
   Control flow is state too: an `exit` or `return` executed by the subshell ends the subshell only (alive stays TRUE).
   DEV ExitPropagates (not the code's behaviour; kept as the negative self-test of ParentSurvives): the subshell's request to
   exit / return is handed to the parent when it collects the job by job number.                                   *)
EXTENDS Naturals, Sequences, FiniteSets, TLC

CONSTANTS Components, Mutators, CompOf, Contexts, ProcessWide, DEV, MaxMut, JobWaited     \* JobWaited: contexts that collect the subshell with `wait %n`
\* CompOf: mutator -> component it changes ("none" for exit, which only ends the subshell)

VARIABLES parent, child, phase, ctx, prog, alive
vars == <<parent, child, phase, ctx, prog, alive>>

Init == /\ parent = [c \in Components |-> 0] /\ child = [c \in Components |-> 0] /\ phase = "idle" /\ ctx = "none" /\ prog = <<>> /\ alive = TRUE
Fork(k) == /\ phase = "idle" /\ phase' = "in" /\ ctx' = k
           /\ child' = parent                         \* the clone starts as a copy
           /\ UNCHANGED <<parent, prog, alive>>
Shared(c) == "ProcessWideShared" \in DEV /\ c \in ProcessWide
Mutate(m) == /\ phase = "in" /\ Len(prog) < MaxMut
             /\ (IF prog = <<>> THEN TRUE ELSE CompOf[prog[Len(prog)]] # "none")          \* nothing runs after exit
             /\ prog' = Append(prog, m)
             /\ LET c == CompOf[m] IN
                IF c = "none" THEN UNCHANGED <<parent, child>>
                ELSE /\ child' = [child EXCEPT ![c] = @ + 1]
                     /\ parent' = IF Shared(c) THEN [parent EXCEPT ![c] = @ + 1] ELSE parent
             /\ UNCHANGED <<phase, ctx, alive>>
Ended == \E i \in 1..Len(prog) : CompOf[prog[i]] = "none"                    \* the subshell ran exit / return
Join == /\ phase = "in" /\ prog # <<>> /\ phase' = "done" /\ UNCHANGED <<parent, child, ctx, prog>>      \* only status and output flow back
        /\ alive' = ~("ExitPropagates" \in DEV /\ ctx \in JobWaited /\ Ended)
Next == (\E k \in Contexts : Fork(k)) \/ (\E m \in Mutators : Mutate(m)) \/ Join
Spec == Init /\ [][Next]_vars

Changed == {c \in Components : parent[c] # 0}
Isolation == Changed = {}                                                   \* the ideal: holds in every state
OnlyProcessWideLeaks == Changed \subseteq ProcessWide                       \* what the clone design can guarantee
ParentSurvives == alive                                                     \* the parent goes on after the subshell, whatever it did
LeakNeedsMutation == \A c \in Changed : \E i \in 1..Len(prog) : CompOf[prog[i]] = c
=============================================================================
