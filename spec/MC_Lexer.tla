------------------------------ MODULE MC_Lexer ------------------------------
EXTENDS Lexer
AllNames == {a.n : a \in Atoms}
\* a sub-alphabet for deeper enumeration: one representative of each opener / closer / literal class
CoreNames == {"word", "a", "sp", "nl", "semi", "sq", "sqc", "dq", "dqc", "bs", "dollar", "cs", "rp", "lp", "bq", "bqc", "ar", "arc", "pe", "pedef", "pec",
              "lb", "rb", "if", "then", "fi", "for", "do", "done", "case", "arm", "esac", "hd", "hdend", "hdline", "u2", "huge", "andand", "pipe", "test", "testc"}
ASSUME PrintT(<<"ATOMS", ToJson({[n |-> a.n, s |-> a.s] : a \in Atoms})>>)
EmitInv == Emission
=============================================================================
