---------------------------- MODULE MC_ParamOps ----------------------------
(* Exhaustive evaluation of ParamOps.tla: every value of <= VL characters x every operator/operand of the
   family selected by Fam, one ROW each; the bash-independent clauses are checked on the way.               *)
EXTENDS ParamOps, Json

CONSTANTS Fam, VL, Chunk, NChunks

ValChars == <<"a", "b", " ", "NL", "*", "U">>      \* (family remx: values are over {a, b} up to VL + 1, see Values)
ValSet == {ValChars[i] : i \in 1..Len(ValChars)}
Seqs(S, n) == UNION {[1..m -> S] : m \in 0..n}
CIdx(c) == CHOOSE i \in 1..Len(ValChars) : ValChars[i] = c
Values == {v \in (IF Fam = "remx" THEN Seqs({"a", "b"}, VL + 2) ELSE Seqs(ValSet, VL)) : IF v = <<>> THEN Chunk = 0 ELSE (CIdx(v[1]) + Len(v)) % NChunks = Chunk}
Offs == {-4, -2, -1, 0, 1, 2, 4}
PatSet == Seqs({"a", "b", "*", "?", " "}, 2)
\* extglob patterns whose alternatives are prefixes of one another: first-match-wins engines get `##` / `%%` wrong on them
XPats == { <<"@(", "a", "|", "a", "b", ")">>, <<"*(", "a", "|", "a", "b", ")">>, <<"+(", "a", "|", "a", "b", ")">>, <<"?(", "a", ")", "*">>,
           <<"@(", "b", "|", "a", "b", ")">>, <<"*(", "b", "|", "a", ")", "b">>, <<"a", "+(", "b", ")">>, <<"@(", "a", "|", "a", "a", ")", "b">> }
Op(k, x, y, p, r) == [k |-> k, x |-> x, y |-> y, p |-> p, r |-> r]
OpsOf(f) ==
  CASE f = "sub"  -> {Op("len", 0, 0, <<>>, <<>>)} \cup {Op("sub1", x, 0, <<>>, <<>>) : x \in Offs} \cup {Op("sub2", x, y, <<>>, <<>>) : x \in Offs, y \in Offs}
    [] f = "rem"  -> {Op(k, 0, 0, p, <<>>) : k \in {"rp", "rP", "rs", "rS"}, p \in PatSet}
    [] f = "remx" -> {Op(k, 0, 0, p, <<>>) : k \in {"rp", "rP", "rs", "rS"}, p \in XPats}
    [] f = "rep"  -> {Op(k, 0, 0, p, r) : k \in {"rep1", "repA", "repP", "repS"}, p \in PatSet \ {<<>>}, r \in {<<"X">>, <<>>}}
    [] f = "case" -> {Op(k, 0, 0, <<>>, <<>>) : k \in {"up1", "upA", "lo1", "loA"}}
    [] f = "dflt" -> {Op(k, 0, 0, <<>>, <<"W">>) : k \in {"dflt", "dfltC", "asg", "asgC", "alt", "altC", "err", "errC"}}
Bindings(f) == IF f = "dflt" THEN {"unset", "null", "set"} ELSE {"set"}

Row(v, b, op) == LET a == Apply(v, b, op) IN [v |-> v, b |-> b, op |-> op, st |-> a.st, val |-> a.val, asg |-> a.asg]
Sane(v) == /\ (Fam = "rem" => \A p \in PatSet : RemovalSound(v, p))
           /\ (Fam = "remx" => \A p \in XPats : RemovalSound(v, p))
           /\ (Fam = "sub" => \A o \in 0..4 : SubstrSound(v, o))

VARIABLE done
Init == done = FALSE
Next == done' = TRUE
Emit == done \/ \A v \in Values : /\ (Sane(v) \/ Print(<<"INSANE", v>>, FALSE))
                                  /\ \A b \in Bindings(Fam) : (b = "set" \/ v = <<>>) =>
                                        \A op \in OpsOf(Fam) : PrintT(<<"ROW", ToJson(Row(v, b, op))>>)
=============================================================================
