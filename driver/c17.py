"""C17 - `wait` really waits (spec/Jobs.tla, spec/Trace_Jobs.tla).

(1) TLC explores every interleaving of task begin/end with launches, wait, wait %n and completion polls and
    checks DistinctIds / WaitComplete / WaitedEnded / NoLostJob / WaitReturns.
(2) Scenarios (job sets x finishing permutations x launch context x front-end x CPU count x pause points)
    are run in the hooked shell; the output must show every job's effect at the line printed right after
    `wait`, and the foreground lines in program order.
(3) Every execution's hook events are validated by TLC against Jobs.tla (Trace_Jobs): a wait_all_end before a
    task_end, a duplicate task, a lost job or a wrong job number is rejected without needing unlucky timing."""
import itertools, random
from .common import *

PROP = "C17"
STEP = 0.04


def body(kind, i, dur):
    eff = "echo j%d >> \"$OUT\"" % i
    if kind == "group":
        return "{ sleep %.2f; %s; } &" % (dur, eff)
    if kind == "subshell":
        return "( sleep %.2f; %s ) &" % (dur, eff)
    if kind == "andor":
        return "sleep %.2f && %s &" % (dur, eff)
    if kind == "pipeline":
        return "{ sleep %.2f; echo j%d; } | cat >> \"$OUT\" &" % (dur, i)
    if kind == "func":
        return "J %d %.2f &" % (i, dur)
    if kind == "failing":       # the job's body raises a (fatal, in its subshell) expansion error: no effect, but it has to be awaited like any other
        return "{ sleep %.2f; : \"${NOPE_%d:?boom}\"; %s; } 2>/dev/null &" % (dur, i, eff)
    if kind == "failpipe":      # a pipeline whose FIRST stage dies of a fatal expansion error while a later stage still has its work to do: the job is
        # not finished (and its effect must be there after `wait`) until the last stage is
        return "{ : \"${NOPE_%d:?boom}\"; } 2>/dev/null | { cat; sleep %.2f; %s; } &" % (i, dur, eff)
    raise ValueError(kind)


def scenario(n, perm, ctx, kinds, extra, failing=0):
    """perm[i] = finishing rank of job i+1 (0 = first); durations are distinct multiples of STEP"""
    lines = ["OUT=$PWD/out", ": > \"$OUT\"", "J() { sleep $2; echo j$1 >> \"$OUT\"; }"]
    launches = []
    for i in range(n):
        dur = STEP * (perm[i] + 1)
        launches.append(body(kinds[i % len(kinds)] if not failing else kinds[i], i + 1, dur))
    if ctx == "top":
        for i, l in enumerate(launches):
            lines.append(l)
            lines.append("echo fg%d" % (i + 1))
    elif ctx == "function":
        lines.append("launch() {")
        for i, l in enumerate(launches):
            lines.append("  " + l)
            lines.append("  echo fg%d" % (i + 1))
        lines.append("}")
        lines.append("launch")
    elif ctx == "loop":
        lines.append("for k in %s; do" % " ".join(str(i + 1) for i in range(n)))
        lines.append("  case $k in")
        for i, l in enumerate(launches):
            lines.append("    %d) %s ;;" % (i + 1, l.rstrip("&").rstrip() + " &"))
        lines.append("  esac")
        lines.append("  echo fg$k")
        lines.append("done")
    if extra == "jobs":
        lines.append("jobs > /dev/null")
    lines.append("wait")
    lines.append("echo \"W:$(sort \"$OUT\" | tr '\\n' ' ')\"")
    if extra == "rewait":
        lines.append("wait")
        lines.append("echo \"W2:$(sort \"$OUT\" | tr '\\n' ' ')\"")
    if extra == "second_round":
        lines.append(body(kinds[0], n + 1, STEP))
        lines.append("echo fgx")
        lines.append("wait")
        lines.append("echo \"W3:$(sort \"$OUT\" | tr '\\n' ' ')\"")
    return "\n".join(lines) + "\n"


def expected(n, ctx, extra, failing=0):
    exp = ["fg%d" % (i + 1) for i in range(n)]
    allj = " ".join("j%d" % (i + 1) for i in range(n) if i + 1 != failing) + " "
    exp.append("W:" + allj)
    if extra == "rewait":
        exp.append("W2:" + allj)
    if extra == "second_round":
        exp.append("fgx")
        exp.append("W3:" + " ".join(sorted(["j%d" % (i + 1) for i in range(n + 1)])) + " ")
    return exp


def fg_scenario(ops, durs, kinds):
    """foreground alphabet of Jobs.tla: L launch, W wait (all), P wait %% (the current job), F wait %1, J jobs.
    Returns (script, expected lines)."""
    lines = ["OUT=$PWD/out", ": > \"$OUT\"", "J() { sleep $2; echo j$1 >> \"$OUT\"; }"]
    exp, launched, n, table_empty_at_first, first_alive = [], [], 0, True, False
    live = []          # jobs launched since the last `wait` (all)
    for op in ops:
        if op == "L":
            n += 1
            if not live:
                first_alive = True
                first_id = n
            lines.append(body(kinds[n % len(kinds)], n, durs[(n - 1) % len(durs)]))
            lines.append("echo fg%d" % n)
            exp.append("fg%d" % n)
            live.append(n)
            launched.append(n)
        elif op == "W":
            lines.append("wait")
            lines.append("echo \"W:$(sort \"$OUT\" | tr '\\n' ' ')\"")
            exp.append("W:" + " ".join(sorted("j%d" % i for i in launched)) + (" " if launched else ""))
            live = []
        elif op == "P" and live:
            k = live[-1]
            lines.append("wait %%")
            lines.append("echo \"P%d:$(grep -c '^j%d$' \"$OUT\")\"" % (k, k))
            exp.append("P%d:1" % k)
        elif op == "F" and live and first_alive:
            k = live[0]
            lines.append("wait %1")
            lines.append("echo \"F%d:$(grep -c '^j%d$' \"$OUT\")\"" % (k, k))
            exp.append("F%d:1" % k)
        elif op == "J":
            lines.append("jobs > /dev/null")
    lines.append("wait")
    lines.append("echo \"E:$(sort \"$OUT\" | tr '\\n' ' ')\"")
    exp.append("E:" + " ".join(sorted("j%d" % i for i in launched)) + (" " if launched else ""))
    return "\n".join(lines) + "\n", exp


def gen_fg_scenarios(tier, rnd):
    import itertools as it
    seqs = []
    for L in (3, 4, 5):
        for ops in it.product("LWPFJ", repeat=L):
            if ops[0] != "L" or ops.count("L") < 2 or ("P" not in ops and "F" not in ops):
                continue
            seqs.append(ops)
    rnd.shuffle(seqs)
    return seqs[: (120 if tier == "quick" else 1500)]


def gen_scenarios(tier, rnd):
    kinds_all = ["group", "subshell", "andor", "pipeline", "func"]
    sc = []
    maxn = 4
    for n in range(1, maxn + 1):
        for perm in itertools.permutations(range(n)):
            for ctx in (("top", "function", "loop") if (tier == "thorough" or n <= 3) else (rnd.choice(["top", "function", "loop"]),)):
                kinds = kinds_all[:]
                rnd.shuffle(kinds)
                extra = rnd.choice(["", "jobs", "rewait", "second_round"])
                sc.append((n, perm, ctx, kinds, extra))
    # a job that ends with an error, at each position among three
    for pos in range(3):
        for extra in ("", "rewait"):
            sc.append((3, (2, 0, 1), "top", ["failing" if i == pos else "group" for i in range(3)], extra, pos + 1))
            sc.append((3, (2, 0, 1), "top", ["failpipe" if i == pos else "group" for i in range(3)], extra))
            sc.append((3, (0, 2, 1), "function", ["failpipe" if i == pos else "pipeline" for i in range(3)], extra))
    big = [5, 6, 8] if tier == "thorough" else [4, 6]
    for n in big:
        for _ in range(6 if tier == "quick" else 40):
            perm = list(range(n))
            rnd.shuffle(perm)
            kinds = kinds_all[:]
            rnd.shuffle(kinds)
            sc.append((n, tuple(perm), rnd.choice(["top", "function", "loop"]), kinds, rnd.choice(["", "jobs", "rewait", "second_round"])))
    return sc


def preprocess(events):
    """events of one process -> list of per-manager record lists for Trace_Jobs"""
    tok_mgr = {}
    for e in events:
        if e["ev"] == "job_add":
            tok_mgr[e["tok"]] = e["mgr"]
    groups = {}
    for e in events:
        if e["ev"] in ("job_add", "wait_all_begin", "wait_all_end"):
            m = e["mgr"]
        elif e["ev"] == "job_remove":
            m = e["mgr"]
        elif e["ev"] in ("task_begin", "task_end", "job_waited"):
            m = tok_mgr.get(e.get("tok"))
            if m is None:
                m = ("orphan", e.get("tok"))
        else:
            continue
        groups.setdefault(m, []).append(e)
    out = []
    for m, evs in groups.items():
        idx, recs = {}, []
        for e in evs:
            t = 0
            if "tok" in e:
                if e["tok"] not in idx:
                    idx[e["tok"]] = len(idx) + 1
                    recs.append({"ev": "spawn", "t": idx[e["tok"]], "id": 0})
                t = idx[e["tok"]]
            recs.append({"ev": e["ev"], "t": t, "id": e.get("id", 0)})
        out.append(recs)
    return out


def validate_traces(segments, max_jobs=8):
    """segments: list of record lists. Returns (ok, n_events, message)"""
    d = tempfile.mkdtemp(prefix="trj-", dir=scratch())
    path = os.path.join(d, "trace.ndjson")
    n = 0
    with open(path, "w") as f:
        for seg in segments:
            if any(r["t"] > max_jobs for r in seg):
                continue
            for r in seg:
                f.write(json.dumps(r) + "\n")
                n += 1
            f.write(json.dumps({"ev": "reset", "t": 0, "id": 0}) + "\n")
            n += 1
    r = run_tlc("Trace_Jobs", "Trace_Jobs.cfg", workers=1, env={"TRACE": path}, deque=True, timeout=1200, xmx="4g")
    shutil.rmtree(d, ignore_errors=True)
    msg = None
    if not r["ok"]:
        m = re.search(r'<<"REJECTED_AT", (\d+), (.*)>>', "\n".join(r.get("notes", [])) + r.get("full", "") + r["out"])
        msg = m.group(0) if m else (r["violation"] or "rejected")
    return r["ok"], n, msg, r


def run(tier):
    v = Verdict(PROP, tier, "model_checking")
    build_harness()
    rnd = random.Random(SEED)
    # (1) exhaustive interleavings on the model
    cfgs = ["MC_Jobs_ideal.cfg"] if tier == "quick" else ["MC_Jobs_ideal.cfg", "MC_Jobs_ideal6.cfg"]
    states = distinct = 0
    cover = {}
    for cfg in cfgs:
        mc = run_tlc("Jobs", cfg, workers=min(8, NCPU), coverage=True, timeout=3000)
        if not mc["ok"]:
            raise ToolError("Jobs.tla ideal model violates its properties: %s" % mc["violation"])
        states += mc["states"]; distinct += mc["distinct"]
        cover = mc["coverage"]
    untaken = [a for a in ("Spawn", "Register", "TaskBegin", "TaskEnd", "WaitAllBegin", "JobWaited", "WaitAllEnd", "WaitOne", "Poll") if cover.get(a, 0) == 0]
    if untaken:
        raise ToolError("vacuity: model actions never taken: %s" % untaken)
    # (2) scenarios in the real shell
    scs = gen_scenarios(tier, rnd)
    runs = []
    for k, sc_ in enumerate(scs):
        n, perm, ctx, kinds, extra = sc_[:5]
        failing = sc_[5] if len(sc_) > 5 else 0
        front = ["file", "stdin"][k % 2]
        cpus = [None, "0", "0,1"][k % 3]
        pause = ["", "job_task_start=30", "job_task_end=25", "job_task_start=15,job_task_end=15"][k % 4]
        runs.append({"k": k, "n": n, "perm": perm, "ctx": ctx, "extra": extra, "front": front, "cpus": cpus, "pause": pause,
                     "script": scenario(n, perm, ctx, kinds, extra, failing), "exp": expected(n, ctx, extra, failing)})

    kinds_all = ["group", "subshell", "andor", "pipeline", "func"]
    for ops in gen_fg_scenarios(tier, rnd):
        k = len(runs)
        durs = [STEP * rnd.choice([1, 2, 3, 5, 8]) for _ in range(6)]
        kinds = kinds_all[:]
        rnd.shuffle(kinds)
        scr, exp = fg_scenario(ops, durs, kinds)
        runs.append({"k": k, "n": ops.count("L"), "perm": tuple(ops), "ctx": "fg-sequence", "extra": "".join(ops), "front": ["file", "stdin"][k % 2], "cpus": [None, "0", "0,1"][k % 3],
                     "pause": ["", "job_task_start=30", "job_task_end=25", ""][k % 4], "script": scr, "exp": exp})

    def one(rn):
        d = tempfile.mkdtemp(prefix="c17-", dir=scratch())
        tr = os.path.join(d, "trace.ndjson")
        env = {"BRUSH_VERIF_TRACE": tr}
        if rn["pause"]:
            env["BRUSH_VERIF_PAUSE"] = rn["pause"]
        argv_prefix = ["taskset", "-c", rn["cpus"]] if rn["cpus"] else []
        # run_script builds the argv; wrap for taskset by temporarily composing here
        envfull = dict(BASE_ENV, HOME=d, HISTFILE=os.path.join(d, ".h"), PATH=bin_path("") + ":/usr/bin:/bin", TMPDIR=d, **env)
        if rn["front"] == "file":
            with open(os.path.join(d, "s.sh"), "w") as f:
                f.write(rn["script"])
            argv = argv_prefix + shell_cmd("brush") + ["s.sh"]
            r = run_proc(argv, d, envfull, None, 30)
        else:
            argv = argv_prefix + shell_cmd("brush") + ["-s"]
            r = run_proc(argv, d, envfull, rn["script"].encode(), 30)
        evs = []
        if os.path.exists(tr):
            with open(tr) as f:
                for ln in f:
                    try:
                        evs.append(json.loads(ln))
                    except ValueError:
                        pass
        shutil.rmtree(d, ignore_errors=True)
        return {"rn": rn, "r": r, "events": evs}
    results = pmap(one, runs, threads=max(4, NCPU // 2))
    segments, seg_owner = [], []
    nviol = 0
    for res in results:
        rn, r = res["rn"], res["r"]
        lines = [l for l in r["out"].splitlines() if not l.startswith("[")]
        if r["timeout"] or panic_site(r["err"]) or lines != rn["exp"]:
            v.violation("scenario:%d" % rn["k"], {"kind": "wait returned early / output order / hang", "scenario": {k: rn[k] for k in ("n", "perm", "ctx", "extra", "front", "cpus", "pause")},
                                                  "script": rn["script"], "expected": rn["exp"], "observed": lines, "stderr": r["err"][-400:], "timeout": r["timeout"]})
        by_pid = {}
        for e in res["events"]:
            by_pid.setdefault(e["pid"], []).append(e)
        for pid, evs in by_pid.items():
            evs.sort(key=lambda e: e["seq"])
            for seg in preprocess(evs):
                segments.append(seg)
                seg_owner.append(rn["k"])
    # (3) trace validation; first the binding self-test: a corrupted trace must be rejected
    probe = next((seg for seg in segments if any(r["ev"] == "wait_all_end" for r in seg) and any(r["ev"] == "task_end" for r in seg)), None)
    if probe is None:
        raise ToolError("no recorded execution contains wait_all_end and task_end: hooks not firing")
    bad_seg = [r for r in probe]
    te = max(i for i, r in enumerate(bad_seg) if r["ev"] == "task_end")
    we = max(i for i, r in enumerate(bad_seg) if r["ev"] == "wait_all_end")
    if te < we:
        moved = bad_seg.pop(te)
        bad_seg.insert(we, moved)          # the last task now ends after wait_all_end
        okc, _, _, _ = validate_traces([bad_seg])
        if okc:
            raise ToolError("self-test failed: a trace in which wait_all_end precedes a task_end was accepted")
    ok, nev, msg, tr = validate_traces(segments)
    if not ok:
        # find the offending segment by validating them one by one (bounded)
        bi = bisect_rejected(segments, lambda ss: validate_traces(ss)[0])
        bad = (segments[bi], seg_owner[bi], validate_traces([segments[bi]])[2]) if bi is not None else None
        if bad:
            rn = [x for x in runs if x["k"] == bad[1]][0]
            v.violation("trace:%d" % bad[1], {"kind": "recorded execution is not a behaviour of Jobs.tla", "rejected": bad[2], "events": bad[0], "script": rn["script"],
                                               "scenario": {k: rn[k] for k in ("n", "perm", "ctx", "extra", "front", "cpus", "pause")}})
        else:
            raise ToolError("trace validation failed but no single segment is rejected: %s" % msg)
    perms = len(set((rn["n"], rn["perm"]) for rn in runs))
    return v.finish({
        "states": states + tr["states"], "transitions": states + tr["states"], "distinct_states": distinct,
        "traces_validated_against_impl": len(segments), "trace_events": nev,
        "evaluations": len(runs), "distinct_nontrivial": sum(1 for rn in runs if rn["n"] >= 2),
        "rule": "scenarios = (a) job sets (1..N jobs; job bodies: brace group, subshell, and-or list, pipeline, function call) whose durations are "
                "distinct multiples of %d ms realising a chosen finishing permutation (all permutations for n <= %d, sampled beyond), launched from "
                "top level / a function / a loop, with foreground echoes between launches, optional `jobs`, repeated `wait`, a second round; delivered as "
                "script file or over stdin; under taskset 1 CPU / 2 CPUs / all; with pause points delaying task start / task completion; (b) foreground sequences over the model's "
                "alphabet {launch, wait, wait %%%%, wait %%1, jobs} of length 3-5 with random durations; "
                "non-trivial = at least two jobs" % (int(STEP * 1000), 4),
        "finishing_permutations": perms, "exhaustive": True,
        "model": {"configs": cfgs, "states": states, "distinct": distinct, "invariants": ["DistinctIds", "WaitComplete", "WaitedEnded", "NoLostJob"], "liveness": "WaitReturns",
                  "coverage_actions": {k: c for k, c in cover.items() if k[0].isupper() and k not in ("Init",)}},
        "samples": [{"script": runs[0]["script"], "expected": runs[0]["exp"]}, {"trace_segment": segments[0] if segments else None}],
    }, assumptions=["one task per job (`cmd &` lists); stopped jobs, process groups and terminals are not modelled",
                    "hook events carry a process-wide sequence number taken under the sink lock; task_end is emitted by the task itself after its body, before the join handle is ready"])


def replay(path):
    with open(path) as f:
        c = json.load(f)
    build_harness()
    r = run_script("brush", c["script"], front=c["scenario"]["front"], timeout=30)
    lines = [l for l in r["out"].splitlines() if not l.startswith("[")]
    print("expected", c.get("expected"), "\nobserved", lines)
    if c.get("expected") is not None and lines != c["expected"]:
        print("VIOLATION property=%s replay=%s" % (PROP, path))
        return 1
    return 0
