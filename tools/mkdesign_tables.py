#!/usr/bin/env python3
"""Regenerates the findings / seeded-changes tables of DESIGN.md section 0.3 from KNOWN_FINDINGS.json and seeded/*/meta.json
(between the markers <!-- TABLES BEGIN --> and <!-- TABLES END -->)."""
import json, glob, os, re
V = os.path.dirname(os.path.dirname(os.path.abspath(__file__)))
K = json.load(open(os.path.join(V, "KNOWN_FINDINGS.json")))["findings"]


def esc(s):
    return str(s).replace("|", "\\|").replace("\n", " ")


out = []
out.append("#### Findings repaired in reubeno/brush (`fix:` commits; the unedited suite passes with each)\n")
out.append("| id | commit | what failed |\n|---|---|---|")
for f in K:
    if f["status"] == "fixed":
        out.append("| %s | %s | %s |" % (f["id"], f.get("commit", "?"), esc(f["what"])))
out.append("\n#### Findings recorded, not repaired (each check prints `KNOWN-FINDING:` for them and still reports anything else)\n")
out.append("| id | mode | what fails | why not repaired |\n|---|---|---|---|")
for f in K:
    if f["status"] == "known":
        mode = "exact: spec switch `%s`" % f["dev"] if f.get("mode") == "exact" else "class: " + esc(f.get("class", ""))
        out.append("| %s | %s | %s | %s |" % (f["id"], mode, esc(f["what"]), esc(f.get("why_not_fixed", ""))))
out.append("\n#### Seeded changes (each produced by an independent sub-agent from the property text alone, confirmed in a scratch worktree: compiles, suite 2659/2659, demonstration fails with / passes without)\n")
out.append("| id | change | needs | result of the registered check |\n|---|---|---|---|")
for d in sorted(glob.glob(os.path.join(V, "seeded", "*", "meta.json"))):
    m = json.load(open(d))
    sid = os.path.basename(os.path.dirname(d))
    db = m.get("detected_by", {})
    out.append("| %s | %s | %s | `%s`: %s |" % (sid, esc(m.get("change", "")), esc(m.get("needs", "")), db.get("check", ""), esc(db.get("result", ""))))
n_fixed = sum(1 for f in K if f["status"] == "fixed")
n_known = sum(1 for f in K if f["status"] == "known")
n_seed = len(glob.glob(os.path.join(V, "seeded", "*", "meta.json")))
out.append("\n(%d findings repaired, %d recorded; %d seeded changes, plus one discarded - seeded/C17-a.discarded.json.)" % (n_fixed, n_known, n_seed))
p = os.path.join(V, "DESIGN.md")
s = open(p).read()
s2 = re.sub(r"<!-- TABLES BEGIN -->.*<!-- TABLES END -->", "<!-- TABLES BEGIN -->\n" + "\n".join(out).replace("\\", "\\\\") + "\n<!-- TABLES END -->", s, flags=re.S)
open(p, "w").write(s2)
print("tables: %d fixed, %d known, %d seeded" % (n_fixed, n_known, n_seed))
