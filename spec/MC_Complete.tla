------------------------------ MODULE MC_Complete ------------------------------
EXTENDS Complete, Json
Emit == lines = <<>> \/ PrintT(<<"PREFIX", ToJson([lines |-> lines, more |-> NeedsMore, open |-> stack])>>)
Table == PrintT(<<"TABLE", ToJson([l \in {x.n : x \in Lines} |-> (CHOOSE x \in Lines : x.n = l).s])>>)
ASSUME Table
================================================================================
