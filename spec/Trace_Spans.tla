----------------------------- MODULE Trace_Spans -----------------------------
(* Trace validation of a pure function (C19): every recorded call of highlight_command must satisfy
   Spans!SpansOK.  One record per step; the first record that violates the predicate is printed.   *)
EXTENDS Spans, Json, IOUtils, TLC

Rec == ndJsonDeserialize(IOEnv.TRACE)
VARIABLE l
Init == l = 1
Next == l <= Len(Rec) /\ l' = l + 1
Spec == Init /\ [][Next]_l
Good(r) == ~("panic" \in DOMAIN r) /\ SpansOK(r.len, r.bounds, r.spans)
AllOK == l <= Len(Rec) => (Good(Rec[l]) \/ Print(<<"BAD_SPANS", l>>, FALSE))
=============================================================================
