-------------------------------- MODULE Lexer --------------------------------
(* The lexical mode automaton of the shell reader (C01 input generation; also C19 / C15b):
   brush-parser/src/tokenizer.rs (quotes, here-documents, comments, operators, $( ` ${ $(( nesting) and
   word.rs (the same constructs inside a word), as a pushdown machine over ATOMS.

   text   the sequence of atoms emitted so far (the driver concatenates their spellings)
   stack  open lexical / syntactic modes, innermost last:
          SQ DQ ANSI BQ CS (command substitution) AR (arithmetic) PE (parameter expansion) PAREN BRACE
          IF THEN LOOP DO CASE TEST HERE (here-document body pending/being read)
   An atom is offered only where the reader would interpret it the way its effect says (e.g. `'` opens SQ at
   top level and inside CS, is literal inside DQ; inside SQ only the closing quote and literal atoms exist).
   Every reachable text is a test input cut at that point ("Cut"); Closed texts have an empty stack.
   Completion(stack) is the minimal closing text.  The properties checked here are sanity of the machine
   itself; the oracle for the implementation is "ends with a status, never a panic, abort or hang", plus a
   diagnostic and non-zero status for texts the machine classifies incomplete.                          *)
EXTENDS Naturals, Sequences, FiniteSets, TLC, Json

CONSTANTS MaxAtoms, MaxStack, AtomNames      \* AtomNames: the sub-alphabet offered in this configuration

VARIABLES text, stack
vars == <<text, stack>>

Code == {"TOP", "CS", "BQ", "PAREN", "BRACE", "THEN", "DO", "CASE"}     \* modes in which commands are read
Top == IF stack = <<>> THEN "TOP" ELSE stack[Len(stack)]
InCode == Top \in Code
InWordish == Top \in Code \cup {"DQ", "PE", "AR", "IF", "LOOP", "TEST"}    \* expansions are recognised

\* atom table: n = name, s = spelling, w = where offered, push / pop = effect on the stack
A(n, s, w, push, pop) == [n |-> n, s |-> s, w |-> w, push |-> push, pop |-> pop]
InWordishSet == Code \cup {"DQ", "PE", "AR", "AR2", "IF", "LOOP", "TEST"}
\* (a comment swallows everything up to the end of the line: inside COMMENT only literal atoms and the newline exist)
Lit == {"COMMENT", "TOP", "CS", "BQ", "PAREN", "BRACE", "THEN", "DO", "CASE", "DQ", "PE", "AR", "IF", "LOOP", "TEST", "SQ", "ANSI", "HERE"}
Atoms == {
  A("word", "echo ", Code \cup {"IF", "LOOP"}, "", ""), A("a", "a", Lit, "", ""), A("sp", " ", Lit, "", ""), A("nl", "\n", Lit \ {"HERE", "COMMENT"}, "", ""),
  A("semi", ";", Code \cup {"IF", "LOOP"}, "", ""), A("amp", "&", Code, "", ""), A("andand", " && ", Code \cup {"IF", "LOOP", "TEST"}, "", ""),
  A("pipe", " | ", Code \cup {"IF", "LOOP"}, "", ""), A("bang", "! ", Code \cup {"IF", "LOOP", "TEST"}, "", ""),
  A("sq", "'", Code \cup {"PE", "IF", "LOOP", "TEST", "AR"}, "SQ", ""), A("sqc", "'", {"SQ", "ANSI"}, "", "Q"),
  A("dq", "\"", Code \cup {"PE", "IF", "LOOP", "TEST", "AR"}, "DQ", ""), A("dqc", "\"", {"DQ"}, "", "DQ"),
  A("ansi", "$'", Code \cup {"PE", "IF", "LOOP", "TEST"}, "ANSI", ""), A("bsx", "\\x4", {"ANSI"}, "", ""), A("bsq", "\\'", {"ANSI"}, "", ""),
  A("bs", "\\", Lit \ {"SQ"}, "", ""), A("dollar", "$", Lit \ {"SQ", "ANSI"}, "", ""), A("var", "$x", InWordishSet, "", ""),
  A("cs", "$(", InWordishSet, "CS", ""), A("rp", ")", {"CS", "PAREN"}, "", "P"), A("lp", "(", Code, "PAREN", ""),
  A("bq", "`", InWordishSet \ {"BQ"}, "BQ", ""), A("bqc", "`", {"BQ"}, "", "BQ"),
  A("ar", "$((", InWordishSet, "AR", ""), A("arc", "))", {"AR"}, "", "AR"), A("arl", "$[", InWordishSet, "AR2", ""), A("arlc", "]", {"AR2"}, "", "AR2"),
  A("pe", "${x", InWordishSet, "PE", ""), A("pedef", ":-", {"PE"}, "", ""), A("pehash", "#", {"PE"}, "", ""), A("pesl", "/", {"PE"}, "", ""), A("pec", "}", {"PE"}, "", "PE"),
  A("lb", "{ ", Code, "BRACE", ""), A("rb", "; }", {"BRACE"}, "", "BRACE"), A("brx", "{a,b}", Code \cup {"DQ"}, "", ""), A("seqx", "{1..3}", Code, "", ""),
  A("if", "if ", Code, "IF", ""), A("then", "; then ", {"IF"}, "THEN", "IF"), A("else", "; else ", {"THEN"}, "", ""), A("fi", "; fi", {"THEN"}, "", "THEN"),
  A("while", "while (( n++ < 2 )) && ", Code, "LOOP", ""), A("for", "for i in ", Code, "LOOP", ""), A("do", "; do ", {"LOOP"}, "DO", "LOOP"), A("done", "; done", {"DO"}, "", "DO"),
  A("case", "case x in ", Code, "CASE", ""), A("arm", "x) ", {"CASE"}, "", ""), A("dsemi", " ;; ", {"CASE"}, "", ""), A("esac", "esac", {"CASE"}, "", "CASE"),
  A("test", "[[ ", Code \cup {"IF", "LOOP"}, "TEST", ""), A("testc", " ]]", {"TEST"}, "", "TEST"), A("eqeq", " == ", {"TEST"}, "", ""),
  A("hd", "<<E\n", Code, "HERE", ""), A("hdq", "<<'E'\n", Code, "HERE", ""), A("hdm", "<<-E\n", Code, "HERE", ""), A("hdend", "E\n", {"HERE"}, "", "HERE"), A("hdline", "x$y\n", {"HERE"}, "", ""),
  A("lt", " < ", Code, "", ""), A("gt", " > f", Code, "", ""), A("dup", " 2>&1", Code, "", ""), A("herestr", " <<< ", Code, "", ""), A("psub", "<(", Code, "CS", ""),
  A("hash", " #", Code, "COMMENT", ""), A("cnl", "\n", {"COMMENT"}, "", "COMMENT"), A("star", "*", Lit, "", ""), A("qm", "?", Lit, "", ""), A("lbr", "[", Lit, "", ""), A("tilde", "~", Code, "", ""), A("eq", "x=", Code, "", ""),
  A("fn", "f() ", Code, "", ""), A("func", "function f ", Code, "", ""), A("time", "time ", Code, "", ""), A("coproc", "coproc ", Code, "", ""), A("select", "select v in ", Code, "LOOP", ""),
  A("u1", "é", Lit, "", ""), A("u2", "🚀", Lit, "", ""), A("max", "9223372036854775807", Lit, "", ""), A("huge", "99999999999999999999", Lit, "", ""), A("neg", "-", Lit, "", ""), A("zero", "0", Lit, "", "") }
ByName(n) == CHOOSE a \in Atoms : a.n = n

PopOK(a) == CASE a.pop = "" -> TRUE
              [] a.pop = "Q" -> Top \in {"SQ", "ANSI"}
              [] a.pop = "P" -> Top \in {"CS", "PAREN"}
              [] OTHER -> Top = a.pop
Offered(a) == /\ a.n \in AtomNames /\ (Top \in a.w \/ (Top = "AR2" /\ "AR" \in a.w)) /\ PopOK(a)
              /\ (a.push # "" => Len(stack) < MaxStack)

Emit(a) == /\ Offered(a) /\ Len(text) < MaxAtoms
           /\ text' = Append(text, a.n)
           /\ stack' = LET s1 == IF a.pop = "" THEN stack ELSE SubSeq(stack, 1, Len(stack) - 1) IN
                       IF a.push = "" THEN s1 ELSE Append(s1, a.push)
Init == text = <<>> /\ stack = <<>>
Next == \E a \in Atoms : Emit(a)
Spec == Init /\ [][Next]_vars

Closer(m) == CASE m = "SQ" -> "sqc" [] m = "ANSI" -> "sqc" [] m = "DQ" -> "dqc" [] m = "BQ" -> "bqc" [] m = "CS" -> "rp" [] m = "PAREN" -> "rp"
               [] m = "AR" -> "arc" [] m = "AR2" -> "arlc" [] m = "PE" -> "pec" [] m = "BRACE" -> "rb" [] m = "IF" -> "then" [] m = "THEN" -> "fi"
               [] m = "LOOP" -> "do" [] m = "DO" -> "done" [] m = "CASE" -> "esac" [] m = "TEST" -> "testc" [] m = "HERE" -> "hdend"
RECURSIVE Completion(_)
Completion(st) == IF st = <<>> THEN <<>>
                  ELSE LET m == st[Len(st)]  rest == SubSeq(st, 1, Len(st) - 1) IN
                       CASE m = "IF" -> <<"word", "then", "word", "fi">> \o Completion(rest)          \* if C; then C; fi
                         [] m = "THEN" -> <<"word", "fi">> \o Completion(rest)
                         [] m = "LOOP" -> <<"a", "do", "word", "done">> \o Completion(rest)
                         [] m = "DO" -> <<"word", "done">> \o Completion(rest)
                         [] m = "BRACE" -> <<"word", "rb">> \o Completion(rest)
                         [] m = "PAREN" -> <<"word", "rp">> \o Completion(rest)
                         [] m = "TEST" -> <<"a", "testc">> \o Completion(rest)
                         [] m = "COMMENT" -> <<"cnl">> \o Completion(rest)
                         [] OTHER -> <<Closer(m)>> \o Completion(rest)

\* ---- sanity of the machine
StackBounded == Len(stack) <= MaxStack
QuotesAreLeaves == \A i \in 1..Len(stack) : stack[i] \in {"SQ", "ANSI", "HERE", "COMMENT"} => i = Len(stack)     \* nothing opens inside them
Emission == PrintT(<<"TEXT", ToJson([t |-> text, open |-> stack, done |-> Completion(stack)])>>)
=============================================================================
