------------------------------ MODULE Pipeline ------------------------------
(* Pipelines (C11): brush-core/src/interp.rs Pipeline::execute / spawn_pipeline_processes /
   wait_for_pipeline_processes_and_update_status, commands.rs (stages that own a subshell are
   spawned as tasks or processes), sys/unix/async_pipe.rs, the kernel's pipe semantics.

   Processes: main (the shell thread, holder id 0) and one per stage (holder id = stage index).
     mpc      main's program counter: <<"spawn", i>> | <<"inline", i>> | <<"wait", i>> | <<"done">>
     st       stage state: "new" | "run" | "exited"
     pipe[p]  FIFO of data units from stage p to stage p+1, capacity CAP
     wr[p], rd[p]   holders of the write / read end of pipe p (the Arc'd handles): an end is closed for the
              other side only when no holder is left
     left[s]  units stage s still has to write; got[s] what it has read; eof[s]
     status[s] "-" | "ok" | "epipe"
   The configuration (stage kinds, payloads, early-exit readers) is chosen in Init, so one TLC run covers
   all of them.  kind "cmp" = a compound command or function call, "ext" = external process / builtin task.

   DEV "InlineCompoundStage": as built before the fix, a "cmp" stage was run to completion on main while the
   pipeline was being set up - TLC finds the deadlock (a full pipe nobody has been started to drain).        *)
EXTENDS Naturals, Sequences, FiniteSets, TLC

CONSTANTS N, CAP, Payloads, DEV

VARIABLES cfg, mpc, st, pipe, wr, rd, left, got, eof, status
vars == <<cfg, mpc, st, pipe, wr, rd, left, got, eof, status>>

Stages == 1..N
Pipes == 1..(N-1)
Kinds == cfg.kind
Out == cfg.out
Early == cfg.early

Configs == [kind : [Stages -> {"ext", "cmp"}], out : [Stages -> Payloads], early : [Stages -> BOOLEAN]]

Init == /\ cfg \in {c \in Configs : c.early[1] = FALSE /\ c.out[N] = 0}       \* first stage has no input; last stage's output is not piped
        /\ mpc = <<"spawn", 1>> /\ st = [s \in Stages |-> "new"] /\ pipe = [p \in Pipes |-> <<>>]
        /\ wr = [p \in Pipes |-> {0}] /\ rd = [p \in Pipes |-> {0}]
        /\ left = cfg.out /\ got = [s \in Stages |-> <<>>] /\ eof = [s \in Stages |-> FALSE]
        /\ status = [s \in Stages |-> "-"]

\* main moves stage i's pipe ends out of its own vectors (the pop()s) into the stage's parameters and starts it
Give(i) == /\ wr' = [p \in Pipes |-> IF p = i THEN (wr[p] \ {0}) \cup {i} ELSE wr[p]]
           /\ rd' = [p \in Pipes |-> IF p = i - 1 THEN (rd[p] \ {0}) \cup {i} ELSE rd[p]]
Spawn(i) == /\ mpc = <<"spawn", i>> /\ Give(i) /\ st' = [st EXCEPT ![i] = "run"]
            /\ mpc' = IF "InlineCompoundStage" \in DEV /\ Kinds[i] = "cmp" THEN <<"inline", i>>
                      ELSE IF i < N THEN <<"spawn", i + 1>> ELSE <<"wait", 1>>
            /\ UNCHANGED <<cfg, pipe, left, got, eof, status>>
InlineDone(i) == /\ mpc = <<"inline", i>> /\ st[i] = "exited"
                 /\ mpc' = IF i < N THEN <<"spawn", i + 1>> ELSE <<"wait", 1>>
                 /\ UNCHANGED <<cfg, st, pipe, wr, rd, left, got, eof, status>>
Wait(i) == /\ mpc = <<"wait", i>> /\ st[i] = "exited"
           /\ mpc' = IF i < N THEN <<"wait", i + 1>> ELSE <<"done">>
           /\ UNCHANGED <<cfg, st, pipe, wr, rd, left, got, eof, status>>

HasIn(s) == s > 1
HasOut(s) == s < N
WantsRead(s) == HasIn(s) /\ ~eof[s] /\ ~(Early[s] /\ Len(got[s]) >= 1)
Read(s) == /\ st[s] = "run" /\ WantsRead(s)
           /\ \/ /\ pipe[s-1] # <<>>
                 /\ got' = [got EXCEPT ![s] = Append(@, Head(pipe[s-1]))]
                 /\ pipe' = [pipe EXCEPT ![s-1] = Tail(@)] /\ UNCHANGED eof
              \/ /\ pipe[s-1] = <<>> /\ wr[s-1] = {}                 \* EOF only when no writer holder is left
                 /\ eof' = [eof EXCEPT ![s] = TRUE] /\ UNCHANGED <<got, pipe>>
           /\ UNCHANGED <<cfg, mpc, st, wr, rd, left, status>>
Release(s) == /\ wr' = [p \in Pipes |-> wr[p] \ {s}] /\ rd' = [p \in Pipes |-> rd[p] \ {s}]
Write(s) == /\ st[s] = "run" /\ left[s] > 0
            /\ IF HasOut(s)
               THEN \/ /\ rd[s] # {} /\ Len(pipe[s]) < CAP           \* blocks when full
                       /\ pipe' = [pipe EXCEPT ![s] = Append(@, Out[s] - left[s] + 1)]
                       /\ left' = [left EXCEPT ![s] = @ - 1] /\ UNCHANGED <<status, st, wr, rd>>
                    \/ /\ rd[s] = {}                                 \* EPIPE / SIGPIPE
                       /\ status' = [status EXCEPT ![s] = "epipe"] /\ st' = [st EXCEPT ![s] = "exited"]
                       /\ Release(s) /\ UNCHANGED <<pipe, left>>
               ELSE /\ left' = [left EXCEPT ![s] = @ - 1] /\ UNCHANGED <<pipe, status, st, wr, rd>>
            /\ UNCHANGED <<cfg, mpc, got, eof>>
Exit(s) == /\ st[s] = "run" /\ left[s] = 0 /\ ~WantsRead(s)
           /\ st' = [st EXCEPT ![s] = "exited"] /\ status' = [status EXCEPT ![s] = "ok"]
           /\ Release(s) /\ UNCHANGED <<cfg, mpc, pipe, left, got, eof>>
Finished == mpc = <<"done">> /\ UNCHANGED vars
Next == \/ \E i \in Stages : Spawn(i) \/ InlineDone(i) \/ Wait(i) \/ Read(i) \/ Write(i) \/ Exit(i)
        \/ Finished
Spec == Init /\ [][Next]_vars /\ WF_vars(Next)

\* ---------------- properties (C11) ----------------
Prefix(a, b) == Len(a) <= Len(b) /\ \A i \in 1..Len(a) : a[i] = b[i]
Written(s) == [i \in 1..(Out[s] - left[s]) |-> i]
\* every unit is read once and in order by the next stage
InOrderOnce == \A s \in Stages : HasIn(s) => Prefix(got[s], Written(s-1))
\* at the end a reader that ran to EOF has everything its (normally ended) writer produced
AllDelivered == mpc = <<"done">> =>
                  \A s \in Stages : (HasIn(s) /\ ~Early[s] /\ status[s-1] = "ok" /\ status[s] = "ok") => got[s] = [i \in 1..Out[s-1] |-> i]
NoLeakedEnds == mpc = <<"done">> => \A p \in Pipes : wr[p] = {} /\ rd[p] = {}
\* all stages are started before any is awaited, and are awaited front to back
SpawnBeforeWait == (mpc[1] = "wait") => \A s \in Stages : st[s] # "new"
\* an early-exit reader ends its writer (EPIPE) instead of leaving it blocked: implied by Terminates
Terminates == <>(mpc = <<"done">>)
=============================================================================
