CONSTANTS
  DEV = {}
SPECIFICATION Spec
INVARIANTS LevelsOK DoneClean BoundaryOK SuppressAgrees ExitOnce Emit
PROPERTY Terminates
CHECK_DEADLOCK FALSE
