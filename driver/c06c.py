"""C06, third part - transformations and binding-sensitive corners (spec/MC_ParamXform.tla): `${v@Q}` (with the read-back round trip),
`${v@E}`, `${v@a}` / `${v@A}` over attribute sets and bindings, associative arrays, which expansions are errors under `set -u`,
offsets and lengths given as arithmetic expressions."""
from .common import *
from .c06b import parse

FAMS = [("Q", 4), ("E", 8), ("attr", 1), ("nounset", 1), ("aroff", 1), ("assoc", 1)]


def model(tier="quick"):
    d = tempfile.mkdtemp(prefix="pxf-", dir=scratch())
    jobs = [(fam, k, n) for fam, n in FAMS for k in range(n)]

    def one(j):
        fam, k, n = j
        cfg = os.path.join(d, "c%s%d.cfg" % (fam, k))
        with open(cfg, "w") as f:
            f.write('CONSTANTS Fam = "%s" Chunk = %d NChunks = %d QL = %d EL = %d\nINIT Init\nNEXT Next\nINVARIANT Emit\nCHECK_DEADLOCK FALSE\n' % (fam, k, n, 3 if tier == "quick" else 4, 4 if tier == "quick" else 5))
        r = run_tlc("MC_ParamXform", cfg, workers=1, want_lines=("ROW",), timeout=1800, xmx="3g")
        if not r["ok"]:
            raise ToolError("MC_ParamXform failed (%s/%d): %s\n%s" % (fam, k, r["violation"], r.get("full", "")[-1200:]))
        return r["lines"]["ROW"]
    rows = []
    for part in pmap(one, jobs, threads=8):
        rows += part
    shutil.rmtree(d, ignore_errors=True)
    return rows


def chars(codes):
    return "".join(chr(c) for c in codes)


def lit(codes):
    """source text of a word whose value is exactly the given characters"""
    if not codes:
        return "''"
    out = "$'"
    for c in codes:
        if c < 128 and not chr(c).isalnum():
            out += "\\%03o" % c
        else:
            out += chr(c)
    return out + "'"


def flat(parts):
    return "".join(p if isinstance(p, str) else chars(p) for p in parts)


def cases(row):
    """-> list of (setup, probe words source, expected list of words | 'ERR', unordered)"""
    fam = row["fam"]
    if fam == "Q":
        v, q = row["v"], chars(row["val"])
        st = "v=%s; a=(%s ''); set -- %s %s" % (lit(v), lit(v), lit(v), lit(v))
        return [(st, '"${v@Q}"', [q], False), (st, '"${a[@]@Q}"', [q, "''"], False), (st, '"${*@Q}"', [q + " " + q], False), (st, '"${@@Q}"', [q, q], False),
                (st, '"$(eval "y=${v@Q}"; printf %s "$y"; printf .)"', [chars(v) + "."], False)]
    if fam == "E":
        if any(c >= 128 for c in row["val"]):
            return []
        return [("v=%s" % lit(row["v"]), '"${v@E}"', [chars(row["val"])], False)]
    if fam == "attr":
        at = "".join(row["attrs"])
        if row["kind"] == "set":
            st = ("declare -%s v=%s" % (at, lit(row["t"]))) if at else "v=%s" % lit(row["t"])
        elif row["kind"] == "decl":
            st = ("declare -%s v" % at) if at else "declare v"
        else:
            st = "unset v"
        out = [(st, '"${v@a}"', ["".join(row["a"])], False), (st, '"${v@A}"', [flat(row["A"])], False)]
        if row["kind"] == "set":
            out.append((st, '"$v"', [chars(row["stored"])], False))
        return out
    if fam == "nounset":
        st = "set -u; unset u ua; s=v; e=; a=(x y); ea=(); w=w; p=p; r=r; set --" + (" p" if row["np"] else "")
        return [(st, '"%s"' % row["f"], "ERR" if row["st"] == "err" else list(row["val"]), False)]
    if fam == "aroff":
        e = "${v:%s}" % row["o"] if row["l"] == "-" else "${v:%s:%s}" % (row["o"], row["l"])
        return [("v=abcdef; n=2; unset z", '"%s"' % e, "ERR" if row["st"] == "err" else [chars(row["val"])], False)]
    if fam == "assoc":
        st = "declare -A m=(" + " ".join("[%s]=%s" % (lit(e["k"]), lit(e["v"])) for e in row["m"]) + "); kk=%s" % lit(row["k"])
        e = {"count": "${#m[@]}", "keys": "${!m[@]}", "vals": "${m[@]}", "valsUp": "${m[@]^^}", "get": "${m[$kk]}", "getdflt": "${m[$kk]-w}", "getdfltC": "${m[$kk]:-w}",
             "getalt": "${m[$kk]+w}", "getlen": "${#m[$kk]}"}[row["o"]]
        return [(st, '"%s"' % e, [chars(w) for w in row["val"]], row["unordered"])]
    return []


def run_part(v, tier):
    rows = model(tier)
    rows.sort(key=lambda r: json.dumps(r, sort_keys=True))
    allc = [c for r in rows for c in cases(r)]
    # every probe carries its own setup and runs in its own subshell, so cases can be batched freely
    jobs = [allc[i:i + 100] for i in range(0, len(allc), 100)]

    def one(item):
        g = item
        L = ["F() { printf '%s\\0' \"$#\" \"$@\"; }"]
        for i, c in enumerate(g):
            # every probe in its own subshell with its own setup: readonly variables, nounset exits and failed expansions stay local
            L.append("( %s; printf 'R%d\\0'; F %s ) 2>/dev/null || printf '%%s\\0' R%d ERR" % (c[0], i, c[1], i))
        scr = "\n".join(L) + "\n"
        return g, scr, run_script("bash", scr, front="file", timeout=120), run_script("brush", scr, front="file", timeout=180)
    n = 0
    for g, scr, b, r in pmap(one, jobs):
        if crashed(r) or r["timeout"]:
            v.violation("c-crash:" + scr[:100], {"kind": "crash or hang", "part": "c", "script": scr[:1500], "stderr": r["err"][-300:]})
            continue
        pb, pr = parse(b["out"]), parse(r["out"])
        for i, c in enumerate(g):
            n += 1
            st, probe, exp, unordered = c
            gb, gr = pb.get(i), pr.get(i)
            norm = (lambda x: sorted(x) if isinstance(x, list) else x) if unordered else (lambda x: x)
            if norm(gb) != norm(exp):
                v.audit_miss({"part": "c", "setup": st, "expr": probe, "model": exp, "bash": gb})
                continue
            if norm(gr) != norm(exp):
                if known_c(v, st, probe, exp, gr):
                    continue
                v.violation("c|%s|%s" % (st, probe), {"kind": "expansion result differs", "part": "c", "setup": st, "expr": probe, "expected": exp, "observed": gr})
    return n, len(rows)


def known_c(v, st, probe, exp, got):
    for f in v.findings:
        if f.get("status") == "known" and f.get("mode") == "class" and f.get("part") == "c06c":
            if f.get("probe_match") and not re.search(f["probe_match"], probe):
                continue
            if f.get("setup_match") and not re.search(f["setup_match"], st):
                continue
            v.known(f["id"], f["what"][:110])
            return True
    return False
