//! linedrv: in-process entry points of the line editor and the parsers (C19, C01, C15b).
//!
//! stdin : NDJSON {"id": .., "line": "..."}            mode given as argv[1]:
//!   hl     for every cursor on a character boundary: highlight_command -> one output line per call
//!          {"id","cursor","len","bounds":[..],"spans":[[start,end],..]}   or {"id","cursor","panic":".."}
//!   parse  tokenizer, program parser, word parser, arithmetic parser, pattern translation, prompt parser,
//!          each under catch_unwind -> {"id","panics":["entry: message",..]}
//!   more   the input-completeness decision (verif_needs_more_input) -> {"id","more":bool}
use serde_json::{Value, json};
use std::io::{BufRead, Write};
use std::panic::{AssertUnwindSafe, catch_unwind};

fn payload(e: Box<dyn std::any::Any + Send>) -> String {
    e.downcast_ref::<String>()
        .cloned()
        .or_else(|| e.downcast_ref::<&str>().map(|s| (*s).to_owned()))
        .unwrap_or_else(|| "panic".to_owned())
}

#[tokio::main(flavor = "current_thread")]
async fn main() {
    let mode = std::env::args().nth(1).unwrap_or_else(|| "hl".to_owned());
    std::panic::set_hook(Box::new(|info| {
        if std::env::var_os("LINEDRV_TRACE").is_some() {
            eprintln!("PANIC {info}");
        }
    }));
    let shell = brush_core::Shell::builder().build().await.expect("shell");
    // watchdog: an input line that keeps the process busy for more than LINEDRV_LINE_TIMEOUT seconds (default 15) ends the
    // process (exit 3); the line has no answer, so the driver reports it as the culprit and goes on with the rest
    let started = std::sync::Arc::new(std::sync::atomic::AtomicU64::new(0));
    {
        let started = started.clone();
        let limit: u64 = std::env::var("LINEDRV_LINE_TIMEOUT").ok().and_then(|s| s.parse().ok()).unwrap_or(15);
        let t0 = std::time::Instant::now();
        std::thread::spawn(move || loop {
            std::thread::sleep(std::time::Duration::from_millis(250));
            let s = started.load(std::sync::atomic::Ordering::Relaxed);
            if s != 0 && t0.elapsed().as_millis() as u64 > s + limit * 1000 {
                eprintln!("WATCHDOG line exceeded {limit}s");
                std::process::exit(3);
            }
        });
    }
    let t0 = std::time::Instant::now();
    let stdin = std::io::stdin();
    let mut out = std::io::BufWriter::new(std::io::stdout().lock());
    for l in stdin.lock().lines() {
        let l = l.expect("read");
        if l.trim().is_empty() {
            continue;
        }
        started.store((t0.elapsed().as_millis() as u64).max(1), std::sync::atomic::Ordering::Relaxed);
        let case: Value = serde_json::from_str(&l).expect("json");
        let id = case["id"].clone();
        let line = case["line"].as_str().unwrap_or("").to_owned();
        match mode.as_str() {
            "hl" => {
                let mut bounds: Vec<usize> = line.char_indices().map(|(i, _)| i).collect();
                bounds.push(line.len());
                bounds.dedup();
                for &cursor in &bounds {
                    let r = catch_unwind(AssertUnwindSafe(|| {
                        let h = brush_interactive::highlighting::highlight_command(&shell, &line, cursor);
                        h.spans().iter().map(|s| json!([s.range.start, s.range.end])).collect::<Vec<_>>()
                    }));
                    let v = match r {
                        Ok(spans) => json!({"id": id, "cursor": cursor, "len": line.len(), "bounds": bounds, "spans": spans}),
                        Err(e) => json!({"id": id, "cursor": cursor, "len": line.len(), "bounds": bounds, "spans": [], "panic": payload(e)}),
                    };
                    let _ = writeln!(out, "{v}");
                }
            }
            "parse" => {
                let mut panics: Vec<String> = vec![];
                let only = std::env::var("LINEDRV_ONLY").ok();
                let mut run = |name: &str, f: &mut dyn FnMut()| {
                    if only.as_deref().is_some_and(|o| o != name) {
                        return;
                    }
                    if let Err(e) = catch_unwind(AssertUnwindSafe(|| f())) {
                        panics.push(format!("{name}: {}", payload(e)));
                    }
                };
                let popts = brush_parser::ParserOptions::default();
                run("tokenize", &mut || {
                    let _ = brush_parser::uncached_tokenize_str(&line, &brush_parser::TokenizerOptions::default());
                });
                run("parse_program", &mut || {
                    let _ = shell.parse_string(line.clone());
                });
                run("word::parse", &mut || {
                    let _ = brush_parser::word::parse(&line, &popts);
                });
                run("arithmetic::parse", &mut || {
                    let _ = brush_parser::arithmetic::parse(&line);
                });
                run("pattern_to_regex_str", &mut || {
                    let _ = brush_parser::pattern::pattern_to_regex_str(&line, true);
                });
                run("prompt::parse", &mut || {
                    let _ = brush_parser::prompt::parse(&line);
                });
                let _ = writeln!(out, "{}", json!({"id": id, "panics": panics}));
            }
            "more" => {
                let r = catch_unwind(AssertUnwindSafe(|| brush_interactive::verif_needs_more_input(&shell, &line)));
                let v = match r {
                    Ok(m) => json!({"id": id, "more": m}),
                    Err(e) => json!({"id": id, "panic": payload(e)}),
                };
                let _ = writeln!(out, "{v}");
            }
            _ => {}
        }
        // flush per input line: when the process dies or hangs, the first unanswered line is the culprit
        let _ = out.flush();
        started.store(0, std::sync::atomic::Ordering::Relaxed);
    }
    let _ = out.flush();
}
