//! `cachedrv`: runs histories of parser lookups in ONE process (the parse caches are process-wide) for the C15 cache
//! transparency check.  stdin: one JSON object per line
//!   {"id": .., "ops": [ {"api": "tok"|"word"|"prog"|"arith"|"heredoc"|"param"|"brace"|"asg", "text": "..", "eg": bool, "posix": bool, "sh": bool} | {"api": "flood"} ]}
//! stdout: {"id": .., "res": ["<hash of the Debug rendering of the result>", ...]}  ("-" for flood)
//! `flood` performs 80 distinct lookups through every cache so that every earlier entry is evicted (capacity 64).
use serde_json::{Value, json};
use std::hash::{Hash, Hasher};
use std::io::{BufRead, Write};

fn h(s: &str) -> String {
    let mut x = std::collections::hash_map::DefaultHasher::new();
    s.hash(&mut x);
    format!("{:016x}", x.finish())
}

fn popts(eg: bool, posix: bool, sh: bool) -> brush_parser::ParserOptions {
    brush_parser::ParserOptions {
        enable_extended_globbing: eg,
        posix_mode: posix,
        sh_mode: sh,
        ..Default::default()
    }
}

async fn lookup(shell: &mut brush_core::Shell, api: &str, text: &str, eg: bool, posix: bool, sh: bool) -> String {
    match api {
        "tok" => {
            let o = brush_parser::TokenizerOptions { enable_extended_globbing: eg, posix_mode: posix, sh_mode: sh };
            format!("{:?}", brush_parser::tokenize_str_with_options(text, &o))
        }
        "word" => format!("{:?}", brush_parser::word::parse(text, &popts(eg, posix, sh))),
        "prog" => {
            shell.options_mut().extended_globbing = eg;
            shell.options_mut().posix_mode = posix;
            shell.options_mut().sh_mode = sh;
            format!("{:?}", shell.parse_string(text.to_owned()))
        }
        "arith" => format!("{:?}", brush_parser::arithmetic::parse(text)),
        // sibling entry points of the word parser: other grammars over the same text
        "heredoc" => format!("{:?}", brush_parser::word::parse_heredoc(text, &popts(eg, posix, sh))),
        "param" => format!("{:?}", brush_parser::word::parse_parameter(text, &popts(eg, posix, sh))),
        "brace" => format!("{:?}", brush_parser::word::parse_brace_expansions(text, &popts(eg, posix, sh))),
        "asg" => format!("{:?}", brush_parser::word::parse_scalar_assignment(text, &popts(eg, posix, sh))),
        _ => "?".to_owned(),
    }
}

#[tokio::main(flavor = "current_thread")]
async fn main() {
    let mut shell = brush_core::Shell::builder().build().await.expect("shell");
    let stdin = std::io::stdin();
    let mut out = std::io::BufWriter::new(std::io::stdout().lock());
    let mut flood_round = 0u32;
    for l in stdin.lock().lines() {
        let l = l.expect("read");
        if l.trim().is_empty() {
            continue;
        }
        let case: Value = serde_json::from_str(&l).expect("json");
        let mut res: Vec<String> = vec![];
        for op in case["ops"].as_array().cloned().unwrap_or_default() {
            let api = op["api"].as_str().unwrap_or("");
            if api == "flood" {
                flood_round += 1;
                for i in 0..80 {
                    let t = format!("echo filler{flood_round}x{i} $((1+{i})) @(a|b{i})");
                    for a in ["tok", "word", "prog", "arith"] {
                        let tt = if a == "arith" { format!("{i}+{flood_round}") } else { t.clone() };
                        let _ = lookup(&mut shell, a, &tt, i % 2 == 0, false, false).await;
                    }
                }
                res.push("-".to_owned());
                continue;
            }
            let text = op["text"].as_str().unwrap_or("");
            let r = lookup(&mut shell, api, text, op["eg"].as_bool().unwrap_or(false), op["posix"].as_bool().unwrap_or(false), op["sh"].as_bool().unwrap_or(false)).await;
            res.push(h(&r));
        }
        let _ = writeln!(out, "{}", json!({"id": case["id"], "res": res}));
        let _ = out.flush();
    }
}
