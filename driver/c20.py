"""C20 - command history is saved once, in order, and reloads as saved (spec/History.tla).

TLC (1) checks the properties on every history of <= 7 operations over two sessions and (2) emits
behaviours - all of them up to a length bound, random longer ones by simulation - each with the abstract
state after every action; bin `histdrv` drives the real Shell/History code through the same operations and
the file bytes and every session's item list are compared after EVERY step."""
from .common import *

PROP = "C20"


def text_of(kind, n):
    return {"a": "c%d" % n, "pad": "  c%d  " % n, "hash": "#h%d" % n, "num": "#%d" % n, "empty": "   "}[kind]


def stored_text(kind, n):
    return {"a": "c%d" % n, "hash": "#h%d" % n, "num": "#%d" % n}[kind]


def line_text(k, n):
    return {"cmd": "c%d" % n, "ts": "#T", "hash": "#h%d" % n, "num": "#T"}[k]     # every `#<digits>` line is normalised to #T


def to_ops(hist):
    ops = []
    for h in hist:
        a = h["a"]
        if a[0] == "add":
            ops.append(["add", a[1], text_of(a[2], a[3])])
        elif a[0] == "del":
            ops.append(["del", a[1], a[2]])
        else:
            ops.append([a[0], a[1]])
    return ops


def expected_steps(hist):
    out = []
    for h in hist:
        st = h["st"]
        file = [line_text(l[0], l[1]) for l in st["file"]]
        sess = {}
        for i, alive in enumerate(st["alive"]):
            if alive:
                sess[str(i + 1)] = [[stored_text(it[1], it[0]), it[2], it[3]] for it in st["sess"][i]]
        out.append({"file": file, "sess": sess})
    return out


def run_histdrv(cases):
    """cases: list of dict(id, ops). returns {id: steps}"""
    chunks = [cases[i::NCPU] for i in range(NCPU)]

    def one(chunk):
        if not chunk:
            return {}
        inp = "\n".join(json.dumps(c) for c in chunk) + "\n"
        d = tempfile.mkdtemp(prefix="hist-", dir=scratch())
        env = dict(BASE_ENV, HOME=d, TMPDIR=d, PATH="/usr/bin:/bin")
        p = subprocess.run([bin_path("histdrv")], input=inp.encode(), stdout=subprocess.PIPE, stderr=subprocess.PIPE, env=env, cwd=d, timeout=1200)
        shutil.rmtree(d, ignore_errors=True)
        res = {}
        for ln in p.stdout.decode().splitlines():
            o = json.loads(ln)
            res[o["id"]] = o["steps"]
        if len(res) != len(chunk):
            # a crash of the code under test is data: report the first case without an answer
            missing = [c for c in chunk if c["id"] not in res]
            res["__crash__"] = {"case": missing[0], "stderr": p.stderr.decode()[-800:], "rc": p.returncode}
        return res
    merged = {}
    for r in pmap(one, chunks):
        merged.update(r)
    return merged


def run(tier):
    v = Verdict(PROP, tier, "model_checking")
    build_harness()
    # (1) the properties on the model, exhaustively
    mc = run_tlc("History", "MC_History_ideal.cfg", workers=min(8, NCPU), coverage=True, timeout=1800)
    if not mc["ok"]:
        raise ToolError("History.tla ideal model violates its properties: %s\n%s" % (mc["violation"], mc.get("full", "")[-1500:]))
    untaken = [a for a in ("NewSession", "Add", "Save", "EndSession", "Delete", "Clear", "ToggleTs") if mc["coverage"].get(a, 0) == 0]
    if untaken:
        raise ToolError("vacuity: actions never taken in the exhaustive run: %s" % untaken)
    states, distinct = mc["states"], mc["distinct"]
    # (2) behaviours to replay
    behaviours = []
    mw = run_tlc("History", "MC_History_write.cfg", workers=min(8, NCPU), timeout=1800)
    if not mw["ok"]:
        raise ToolError("History.tla (with history -w) violates TsAttached/ReloadEq: %s" % mw["violation"])
    states += mw["states"]; distinct += mw["distinct"]
    for cfg in ["MC_History_emit1.cfg", "MC_History_emit2.cfg"]:
        r = run_tlc("History", cfg, workers=min(8, NCPU), timeout=1800, extra=None)
        if not r["ok"]:
            raise ToolError("emission failed: %s" % r["violation"])
        states += r["states"]; distinct += r["distinct"]
        behaviours += [c["hist"] for c in r["lines"]["CASE"]]
    nsim = 3000 if tier == "quick" else 40000
    r = run_tlc("History", "MC_History_sim.cfg", workers=1, simulate=nsim, depth=13, seed=SEED, timeout=3000)
    if not r["ok"]:
        raise ToolError("simulation failed: %s\n%s" % (r["violation"], r.get("full", "")[-1500:]))
    behaviours += [c["hist"] for c in r["lines"]["CASE"]]
    if tier == "quick":
        rnd = __import__("random").Random(SEED)
        exhaustive_part = behaviours[:-len(r["lines"]["CASE"])] if r["lines"]["CASE"] else behaviours
    seen, cases = set(), []
    for h in behaviours:
        ops = to_ops(h)
        key = json.dumps(ops)
        if key in seen:
            continue
        seen.add(key)
        cases.append({"id": len(cases), "ops": ops, "exp": expected_steps(h)})
    got = run_histdrv([{"id": c["id"], "ops": c["ops"]} for c in cases])
    if "__crash__" in got:
        cr = got.pop("__crash__")
        v.violation("crash:" + json.dumps(cr["case"]["ops"]), {"kind": "histdrv died (panic/abort in the history code)", **cr})
    nviol = 0
    steps_compared = 0
    for c in cases:
        obs = got.get(c["id"])
        if obs is None:
            continue
        for i, (e, o) in enumerate(zip(c["exp"], obs)):
            steps_compared += 1
            if e != o:
                nviol += 1
                v.violation(json.dumps(c["ops"][: i + 1]), {"ops": c["ops"][: i + 1], "step": i + 1, "expected": e, "observed": o})
                break
    nontrivial = sum(1 for c in cases if sum(1 for o in c["ops"] if o[0] in ("save", "write", "end")) >= 1 and any(o[0] == "add" for o in c["ops"]))
    multi = sum(1 for c in cases if len(set(o[1] for o in c["ops"])) > 1)
    return v.finish({
        "states": states, "transitions": states, "distinct_states": distinct,
        "traces_validated_against_impl": len(cases), "steps_compared": steps_compared,
        "evaluations": len(cases), "distinct_nontrivial": nontrivial,
        "rule": "behaviours of spec/History.tla emitted by TLC: every history of exactly 5 operations in one session and of 4 operations "
                "over two sessions (prefixes are compared step by step), plus seeded simulation of 12-operation histories; distinct by operation "
                "sequence; non-trivial = records at least one command and saves at least once",
        "two_session_histories": multi, "exhaustive_model_check": {"config": "MC_History_ideal.cfg", "states": mc["states"], "distinct": mc["distinct"],
                                                                 "invariants": ["NoDup", "SavedPresent", "InOrder", "TsAttached", "ReloadEq"], "action_property": "SaveIdemAct",
                                                                 "coverage_actions": {k: mc["coverage"][k] for k in mc["coverage"] if k[0].isupper()}},
        "exhaustive": True,
        "samples": [{"ops": c["ops"], "expected_last": c["exp"][-1]} for c in cases[:: max(1, len(cases) // 3)][:3]],
    }, assumptions=["timestamps written by the code are wall-clock and compared as `#T`", "single-line commands; the history file is private to the sessions of the case",
                    "operations go through Shell::add_to_history / save_history and the history builtin (-w -d -c), in-process"])


def replay(path):
    with open(path) as f:
        c = json.load(f)
    build_harness()
    got = run_histdrv([{"id": 0, "ops": c["ops"]}])
    obs = got.get(0, [None])[-1]
    print("expected", c["expected"], "\nobserved", obs)
    if obs != c["expected"]:
        print("VIOLATION property=%s replay=%s" % (PROP, path))
        return 1
    return 0
