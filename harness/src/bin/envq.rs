//! `envq NAME...`: prints, NUL-terminated, the value of each named environment variable as this (child) process
//! received it, or `U` if it is not in the environment.
use std::io::Write;
use std::os::unix::ffi::OsStrExt;
fn main() {
    let mut out = std::io::stdout().lock();
    for n in std::env::args_os().skip(1) {
        match std::env::var_os(&n) {
            Some(v) => {
                let _ = out.write_all(v.as_bytes());
            }
            None => {
                let _ = out.write_all(b"U");
            }
        }
        let _ = out.write_all(b"\0");
    }
}
