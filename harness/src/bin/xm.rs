//! `xm <id> <status>`: external scripted leaf. Prints `x<id>` and exits with <status>.
//! With `-e NAME...` also prints `NAME=<value>|<unset>` for each name (environment probe).
use std::io::Write;
fn main() {
    let a: Vec<String> = std::env::args().collect();
    let id = a.get(1).cloned().unwrap_or_default();
    let st: i32 = a.get(2).and_then(|s| s.parse().ok()).unwrap_or(0);
    let mut out = std::io::stdout().lock();
    let mut line = format!("x{id}");
    if a.get(3).map(String::as_str) == Some("-e") {
        for n in &a[4..] {
            match std::env::var(n) {
                Ok(v) => line.push_str(&format!(" {n}={v}")),
                Err(_) => line.push_str(&format!(" {n}-")),
            }
        }
    }
    let _ = writeln!(out, "{line}");
    let _ = out.flush();
    std::process::exit(st);
}
