"""C09 - variable scope and attributes (spec/Env.tla, MC_Env.tla): every program of L steps over the alphabet of a profile
is executed with an observation (value, attribute letters, value seen by a child process) after every step."""
import random
from .common import *

PROP = "C09"
PROFILES = ["scope", "ro", "attr", "export", "tmpro"]
KNOWN_DEVS_ALL = ["IntegerNotEvaluated"]
PHEAD = '''P() { printf 'R%s_%s\\0' "$__p" "$1"; printf '%s\\0' "${x-U}" "${y-U}" "$(declare -p x y 2>/dev/null)"; envq x y; }
'''


def txt(v):
    return "U" if v == ["UNSET"] else "".join(v)


def model(profile, L, dev):
    d = tempfile.mkdtemp(prefix="env-", dir=scratch())
    cfg = os.path.join(d, "m.cfg")
    with open(cfg, "w") as f:
        f.write('CONSTANTS Names = {"x", "y"} DEV = {%s} Profile = "%s" L = %d\nINIT Init\nNEXT Next\nINVARIANTS Emit RoOK NeutralOK\nCHECK_DEADLOCK FALSE\n' % (", ".join('"%s"' % x for x in dev), profile, L))
    r = run_tlc("MC_Env", cfg, workers=8, want_lines=("PROG",), timeout=3000, xmx="8g")
    shutil.rmtree(d, ignore_errors=True)
    if not r["ok"]:
        raise ToolError("MC_Env failed (%s): %s\n%s" % (profile, r["violation"], r.get("full", "")[-1500:]))
    return r["lines"]["PROG"], r["distinct"]


def step_text(st):
    op, n, v, w = st["op"], st["n"], txt(st["v"]), st["w"]
    has = st["v"] != ["UNSET"]
    if op == "asg":
        return {"plain": "%s=%s" % (n, v), "arith": "(( %s = %s ))" % (n, v), "read": "read %s <<< %s" % (n, v), "printfv": "printf -v %s %%s %s" % (n, v), "for": "for %s in %s; do :; done" % (n, v),
                "defasg": ": ${%s:=%s}" % (n, v), "append": "%s+=%s" % (n, v), "elem": "%s[0]=%s" % (n, v),
                "getopts": "OPTIND=1; getopts %s %s -%s" % (v, n, v), "mapfile": "mapfile -t %s <<< %s" % (n, v)}[w]
    if op == "local":
        flag = {"": "", "i": "-i ", "u": "-u ", "l": "-l ", "x": "-x ", "r": "-r "}[w]
        return "local %s%s%s" % (flag, n, ("=" + v) if has else "")
    if op == "mark":
        cmd = {"r": "readonly", "x": "export", "i": "declare -i", "u": "declare -u", "l": "declare -l"}[w]
        return "%s %s%s" % (cmd, n, ("=" + v) if has else "")
    if op == "unset":
        return "unset %s" % n
    raise ValueError(op)


def render(prog):
    """-> script text. Observation ids: step k -> P k; closing leaves -> P c<j>"""
    out, stack, fn = [], [], 0
    k = 0
    for st in prog:
        k += 1
        if st["op"] in ("enter", "tenter"):
            fn += 1
            stack.append((fn, st, k))
            out.append("f%d() {" % fn)
            out.append("P %d" % k)
        elif st["op"] == "leave":
            f, est, ek = stack.pop()
            out.append("}")
            out.append(("%s=%s f%d" % (est["n"], txt(est["v"]), f)) if est["op"] == "tenter" else "f%d" % f)
            out.append("P %d" % k)
        else:
            out.append(step_text(st) + " 2>/dev/null")
            out.append("P %d" % k)
    j = 0
    while stack:
        j += 1
        f, est, ek = stack.pop()
        out.append("}")
        out.append(("%s=%s f%d" % (est["n"], txt(est["v"]), f)) if est["op"] == "tenter" else "f%d" % f)
        out.append("P c%d" % j)
    return "\n".join(out) + "\n"


def obs_exp(o):
    return {n: (txt(o[n]["v"]), "".join(sorted(o[n]["f"])), txt(o[n]["child"])) for n in ("x", "y")}


def parse(out):
    """-> {prog index: {obs id: {x: (value, flags, child), y: ...}}}"""
    f = out.split("\0")
    res, i = {}, 0
    while i < len(f):
        m = re.match(r"^R(\d+)_(\w+)$", f[i])
        if m and i + 5 < len(f):
            def flags(decl, n):
                mm = re.search(r"^declare -([A-Za-z-]+) %s\b" % n, decl, re.M)
                return "".join(sorted(c for c in (mm.group(1) if mm else "") if c in "ailrux"))
            res.setdefault(int(m.group(1)), {})[m.group(2)] = {"x": (f[i + 1], flags(f[i + 3], "x"), f[i + 4]), "y": (f[i + 2], flags(f[i + 3], "y"), f[i + 5])}
            i += 6
        else:
            i += 1
    return res


def run(tier):
    v = Verdict(PROP, tier, "model_checking")
    build_harness()
    L = 4          # (L = 5 makes TLC print 2.5 M programs per profile: not run)
    rnd = random.Random(SEED)
    cases, states = [], 0
    for prof in PROFILES:
        ideal, st = model(prof, L, [])
        built, _ = model(prof, L, KNOWN_DEVS_ALL)
        states += st
        bmap = {json.dumps(p["prog"]): p for p in built}
        progs = sorted(ideal, key=lambda p: json.dumps(p["prog"]))
        cap = 3000 if tier == "quick" else 12000
        if len(progs) > cap:
            progs = rnd.sample(progs, cap)
        for p in progs:
            cases.append((prof, p, bmap[json.dumps(p["prog"])]))

    def expected(p):
        e = {}
        if p.get("dead"):
            # the last step was refused inside a function: nothing is observed from there on until the top-level command has returned
            n = len(p["obs"])
            for k, o in enumerate(p["obs"][:-1]):
                e[str(k + 1)] = obs_exp(o)
            depth = sum(1 for st in p["prog"] if st["op"] in ("enter", "tenter")) - sum(1 for st in p["prog"] if st["op"] == "leave")
            e["c%d" % depth] = obs_exp(p["obs"][-1])
            return e
        for k, o in enumerate(p["obs"]):
            e[str(k + 1)] = obs_exp(o)
        for j, o in enumerate(p["closing"]):
            e["c%d" % (j + 1)] = obs_exp(o)
        # the observation right after entering a function body is the one recorded for the enter step
        return e

    def script_of(group):
        if len(group) == 1:
            return PHEAD + "__p=0\n" + render(group[0][1]["prog"])
        return PHEAD + "".join("(\n__p=%d\n%s)\n" % (i, render(p["prog"])) for i, (prof, p, pb) in enumerate(group))

    def one(group):
        scr = script_of(group)
        return group, run_script("bash", scr, front="file", timeout=300), run_script("brush", scr, front="file", timeout=300)
    # an assignment to a readonly variable ends a bash subshell: programs that make anything readonly run in a process of their own
    def has_ro(c):
        return any(st["w"] == "r" for st in c[1]["prog"])
    ro_cases = [c for c in cases if has_ro(c)]
    ro_cap = 800 if tier == "quick" else 4000
    if len(ro_cases) > ro_cap:
        ro_cases = rnd.sample(ro_cases, ro_cap)
    plain_cases = [c for c in cases if not has_ro(c)]
    cases = plain_cases + ro_cases
    groups = [plain_cases[i:i + 60] for i in range(0, len(plain_cases), 60)] + [[c] for c in ro_cases]
    evals = nontrivial = 0
    for group, b, r in pmap(one, groups):
        if crashed(r) or r["timeout"]:
            v.violation("crash:" + script_of(group)[:200], {"kind": "crash or hang", "script": script_of(group), "stderr": r["err"][-400:]})
            continue
        GB, GR = parse(b["out"]), parse(r["out"])
        for i, (prof, p, pb) in enumerate(group):
            evals += 1
            exp, expb = expected(p), expected(pb)
            gb, gr = GB.get(i, {}), GR.get(i, {})
            scr = PHEAD + "__p=0\n" + render(p["prog"])
            if gb != exp:
                k = next((k for k in exp if gb.get(k) != exp[k]), None)
                v.audit_miss({"profile": prof, "script": scr, "at": k, "model": exp.get(k), "bash": gb.get(k)})
                continue
            nontrivial += 1
            if gr == exp:
                continue
            # the FIRST divergence decides: it must be a listed deviation (after it the two states differ anyway)
            k = next((k for k in exp if gr.get(k) != exp[k]), None)
            if k is None:
                extra = sorted(set(gr) - set(exp))
                if known(v, scr, {"op": "close", "w": ""}, None, gr.get(extra[0]) if extra else None):
                    continue
                v.violation(scr, {"kind": "the shell went on inside a function after an assignment that must unwind it (observations %s should not exist)" % extra, "profile": prof, "script": scr, "at": extra[0] if extra else "?",
                                  "expected": None, "observed": gr.get(extra[0]) if extra else None, "prog": p["prog"]})
                continue
            if expb.get(k) != exp[k] and gr.get(k) == expb.get(k):
                f = v.known_dev("IntegerNotEvaluated")
                if f:
                    v.known(f["id"], f["what"][:110])
                    continue
            st = p["prog"][int(k) - 1] if k and k.isdigit() else {"op": "close", "w": ""}
            if known(v, scr, st, exp.get(k), gr.get(k)):
                continue
            v.violation(scr, {"kind": "state differs after step %s" % k, "profile": prof, "script": scr, "at": k, "expected": exp.get(k), "observed": gr.get(k), "prog": p["prog"]})
    if v.audit_disagreements > 0.15 * max(1, evals):
        raise ToolError("model/bash disagreement rate too high: %d of %d" % (v.audit_disagreements, evals))
    return v.finish({
        "states": states, "transitions": states, "traces_validated_against_impl": evals, "evaluations": evals, "distinct_nontrivial": nontrivial,
        "rule": "every program of %d steps over the step alphabet of each of five profiles of MC_Env.tla (scope: assignment / local / unset / function call / call with temporary assignment; ro: readonly x eight writers "
                "(plain, (( )), read, printf -v, for, ${:=}, +=, element); attr: declare -i/-u/-l/-x with values 'a' 'B' '5' '1+1' x writers; export: export / unset / local -x / temporary assignments; tmpro: refused writers inside functions called under a temporary assignment), function depth <= 3; "
                "after every step the value, attribute letters and the value received by a child process are compared for x and y%s" % (L, " (profiles capped at %d sampled programs; %d of those that make a variable readonly, which run one per process)" % ((3000, 800) if tier == "quick" else (12000, 4000))),
        "programs": len(cases), "exhaustive": False,
        "samples": [{"script": render(c[1]["prog"])} for c in cases[:: max(1, len(cases) // 3)][:3]],
    }, assumptions=["bash 5.2.15 is the reference; a program counts only if bash reproduces the model's observation after every step", "stderr is discarded; statuses of the steps are not compared, only the resulting state"])


def known(v, scr, st, exp, got):
    for f in v.findings:
        if f.get("status") != "known" or f.get("mode") != "class":
            continue
        if [st["op"], st["w"]] not in f.get("step_ops", []):
            continue
        if f.get("script_match") and not re.search(f["script_match"], scr, re.S):
            continue
        if f.get("observed_none") and got is not None:
            continue
        v.known(f["id"], f["what"][:110])
        return True
    return False


def replay(path):
    with open(path) as f:
        c = json.load(f)
    build_harness()
    r = run_script("brush", c["script"], front="file", timeout=60)
    got = parse(r["out"]).get(0, {}).get(c["at"])
    exp = {k: tuple(x) for k, x in c["expected"].items()}
    print("expected", exp, "observed", got)
    if got != exp:
        print("VIOLATION property=%s replay=%s" % (PROP, path))
        return 1
    return 0
