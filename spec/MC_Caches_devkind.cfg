CONSTANTS Kinds = {"k1", "k2"} Texts = {"t1", "t2"} Opts = {"o1", "o2"} Capacity = 2 MaxHist = 4
DEV = {"KeyOmitsKind"}
SPECIFICATION Spec
INVARIANTS Transparent Bounded 
CHECK_DEADLOCK FALSE
