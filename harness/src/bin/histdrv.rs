//! histdrv: replays History.tla behaviours into the real history code (C20).
//!
//! stdin : NDJSON, one case per line  {"id": .., "ops": [[op, session, arg...], ...]}
//! stdout: NDJSON, one line per case   {"id": .., "steps": [{"file": [...], "sess": {"1": [[text, dirty, has_ts], ...]}}, ...]}
//!
//! Operations are performed through the public API the shell itself uses:
//!   new   -> Shell::builder() with history enabled and HISTFILE set (constructor imports the file)
//!   add   -> Shell::add_to_history            save -> Shell::save_history
//!   write -> builtin `history -w`             del  -> builtin `history -d N`
//!   clear -> builtin `history -c`             ts   -> HISTTIMEFORMAT set / unset
//!   end   -> Shell::save_history, then the shell is dropped
use brush_builtins::ShellBuilderExt;
use serde_json::{Value, json};
use std::collections::BTreeMap;
use std::io::{BufRead, Write};

type Sh = brush_core::Shell;

async fn new_shell(histfile: &std::path::Path) -> Sh {
    brush_core::Shell::builder()
        .default_builtins(brush_builtins::BuiltinSet::BashMode)
        .enable_option("history")
        .no_editing(true)
        .profile(brush_core::ProfileLoadBehavior::Skip)
        .rc(brush_core::RcLoadBehavior::Skip)
        .do_not_inherit_env(true)
        .var(
            "HISTFILE",
            brush_core::ShellVariable::new(brush_core::ShellValue::String(
                histfile.to_string_lossy().to_string(),
            )),
        )
        .build()
        .await
        .expect("shell")
}

async fn run(shell: &mut Sh, cmd: &str) {
    let params = shell.default_exec_params();
    let _ = shell
        .run_string(cmd.to_owned(), &brush_core::SourceInfo::default(), &params)
        .await;
}

fn norm_line(l: &str) -> String {
    // timestamps written by the code under test are wall-clock (or re-written from an imported `#<digits>`
    // line): every `#<digits>` line is normalised
    if let Some(rest) = l.strip_prefix('#') {
        if !rest.is_empty() && rest.chars().all(|c| c.is_ascii_digit()) {
            return "#T".to_owned();
        }
    }
    l.to_owned()
}

fn snapshot(histfile: &std::path::Path, sess: &BTreeMap<i64, (Sh, bool)>) -> Value {
    let file: Vec<String> = std::fs::read_to_string(histfile)
        .unwrap_or_default()
        .lines()
        .map(norm_line)
        .collect();
    let mut s = serde_json::Map::new();
    for (k, (sh, _)) in sess {
        let items: Vec<Value> = sh
            .history()
            .map(|h| {
                h.iter()
                    .map(|it| json!([it.command_line, it.dirty, it.timestamp.is_some()]))
                    .collect()
            })
            .unwrap_or_default();
        s.insert(k.to_string(), Value::Array(items));
    }
    json!({"file": file, "sess": s})
}

#[tokio::main(flavor = "current_thread")]
async fn main() {
    let stdin = std::io::stdin();
    let mut out = std::io::stdout().lock();
    let base = std::env::temp_dir().join(format!("histdrv-{}", std::process::id()));
    std::fs::create_dir_all(&base).expect("tmp");
    for line in stdin.lock().lines() {
        let line = line.expect("read");
        if line.trim().is_empty() {
            continue;
        }
        let case: Value = serde_json::from_str(&line).expect("json");
        let histfile = base.join("hist");
        let _ = std::fs::remove_file(&histfile);
        let mut sess: BTreeMap<i64, (Sh, bool)> = BTreeMap::new();
        let mut steps = vec![];
        for op in case["ops"].as_array().expect("ops") {
            let name = op[0].as_str().unwrap_or("");
            let s = op[1].as_i64().unwrap_or(0);
            match name {
                "new" => {
                    let sh = new_shell(&histfile).await;
                    sess.insert(s, (sh, false));
                }
                "add" => {
                    if let Some((sh, _)) = sess.get_mut(&s) {
                        let _ = sh.add_to_history(op[2].as_str().unwrap_or(""));
                    }
                }
                "save" => {
                    if let Some((sh, _)) = sess.get_mut(&s) {
                        let _ = sh.save_history();
                    }
                }
                "end" => {
                    if let Some((mut sh, _)) = sess.remove(&s) {
                        let _ = sh.save_history();
                    }
                }
                "write" => {
                    if let Some((sh, _)) = sess.get_mut(&s) {
                        run(sh, "history -w").await;
                    }
                }
                "del" => {
                    if let Some((sh, _)) = sess.get_mut(&s) {
                        run(sh, &format!("history -d {}", op[2].as_i64().unwrap_or(1))).await;
                    }
                }
                "clear" => {
                    if let Some((sh, _)) = sess.get_mut(&s) {
                        run(sh, "history -c").await;
                    }
                }
                "ts" => {
                    if let Some((sh, on)) = sess.get_mut(&s) {
                        if *on {
                            run(sh, "unset HISTTIMEFORMAT").await;
                        } else {
                            run(sh, "HISTTIMEFORMAT='%s '").await;
                        }
                        *on = !*on;
                    }
                }
                _ => {}
            }
            steps.push(snapshot(&histfile, &sess));
        }
        let _ = writeln!(out, "{}", json!({"id": case["id"], "steps": steps}));
    }
    let _ = std::fs::remove_dir_all(&base);
}
