------------------------------ MODULE MC_HereDoc ------------------------------
(* Every sequence of <= MaxLines lines from the line alphabet x every form: the body the command must read, whether the
   document is terminated, and the lines that follow it.                                                      *)
EXTENDS HereDoc, Json, FiniteSets

CONSTANTS MaxLines, NChunks

LinesA == << <<"E">>, <<" ", "E">>, <<"E", " ">>, <<"E", "E">>, <<"TAB", "E">>, <<"TAB", "TAB", "x">>, <<"x", "TAB">>, <<"$", "x">>, <<"\\", "$", "x">>, <<"\\", "\\">>, <<"a", "\\">>,
            <<"'", "q", "'">>, <<"\"", "q", "\"">>, <<"$", "(", "e", "c", "h", "o", " ", "s", ")">>, <<"`", "e", "c", "h", "o", " ", "s", "`">>, <<"\\", "`">>, <<>>, <<"$">>, <<"$", "{", "x", "}", "y">>,
            <<"\\", "E">>, <<"TAB">>, <<"e", "c", "h", "o", " ", "M">>, <<"\\", "a">>, <<"\\">>, <<"$", "'", "q", "'">> >>
NL == Len(LinesA)
Forms == {"plain", "dash", "quoted", "dashq"}
Seqs == UNION {[1..n -> 1..NL] : n \in 0..MaxLines}
VARIABLE c
Init == c = 99999
Next == c = 99999 /\ \E j \in 0..(NChunks - 1) : c' = j
Hash(ix) == Len(ix) + (IF Len(ix) > 0 THEN ix[1] * 3 + ix[Len(ix)] ELSE 0)
Emit == c = 99999 \/ \A ix \in Seqs : Hash(ix) % NChunks = c =>
           LET ls == [i \in 1..Len(ix) |-> LinesA[ix[i]]] IN
           /\ (QuotedIsLiteral(ls) /\ DashOnlyTabs(ls)) \/ Print(<<"INSANE", ix>>, FALSE)
           /\ \A f \in Forms : \A tail \in {<<>>, <<<<"E">>>>, <<<<"TAB", "E">>>>} :       \* as drawn, and closed by a delimiter line (plain / behind a tab)
                  LET l2 == ls \o tail IN
                  PrintT(<<"DOC", ToJson([form |-> f, lines |-> l2, body |-> Body(f, l2), term |-> Terminated(f, l2), after |-> AfterLines(f, l2)])>>)
=============================================================================
