-------------------------------- MODULE Caches --------------------------------
(* Parse caches are transparent (C15, third part): brush-parser/src/tokenizer.rs TOKENIZE_CACHE, word.rs cacheable_parse,
   brush-core/src/shell/parsing.rs parse_string_impl (64-entry caches keyed by (text, options)), arithmetic.rs (keyed by text;
   arithmetic parsing takes no options).

   cache   LRU list of [key, val], most recent first, at most Capacity entries
   hist    the lookups made so far: <<text, opts>> or "flood" (enough other lookups to evict everything)
   A lookup returns the cached value when its KEY is present, else parses, stores and returns.
   Transparent:  every lookup returns Parse(text, opts) - what a process that never parsed anything before would return.
   Parse is abstract: its result may depend on every option, so results for different (text, opts) are different values.
   DEV KeyOmitsOptions: the key is the text alone.                                                              *)
EXTENDS Naturals, Sequences, FiniteSets, TLC

CONSTANTS Texts, Opts, Capacity, MaxHist, DEV

VARIABLES cache, hist, last
vars == <<cache, hist, last>>

Parse(t, o) == <<"tree-of", t, o>>
Key(t, o) == IF "KeyOmitsOptions" \in DEV THEN <<t>> ELSE <<t, o>>
Find(k) == {i \in 1..Len(cache) : cache[i].key = k}
Init == cache = <<>> /\ hist = <<>> /\ last = [t |-> "", o |-> "", r |-> Parse("", "")]
Lookup(t, o) ==
  /\ Len(hist) < MaxHist
  /\ hist' = Append(hist, <<t, o>>)
  /\ LET k == Key(t, o)  F == Find(k) IN
     IF F # {}
     THEN LET i == CHOOSE j \in F : TRUE IN
          /\ last' = [t |-> t, o |-> o, r |-> cache[i].val]
          /\ cache' = <<cache[i]>> \o SubSeq(cache, 1, i - 1) \o SubSeq(cache, i + 1, Len(cache))
     ELSE /\ last' = [t |-> t, o |-> o, r |-> Parse(t, o)]
          /\ cache' = SubSeq(<<[key |-> k, val |-> Parse(t, o)]>> \o cache, 1, IF Len(cache) + 1 > Capacity THEN Capacity ELSE Len(cache) + 1)
Flood == /\ Len(hist) < MaxHist /\ hist # <<>> /\ hist[Len(hist)] # <<"flood">>
         /\ hist' = Append(hist, <<"flood">>) /\ cache' = <<>> /\ UNCHANGED last
Next == (\E t \in Texts, o \in Opts : Lookup(t, o)) \/ Flood
Spec == Init /\ [][Next]_vars

Transparent == last.r = Parse(last.t, last.o)
Bounded == Len(cache) <= Capacity
=============================================================================
