"""C18 - long sessions do not leak descriptors, children or internal stacks (spec/Stacks.tla, Trace_Stacks.tla).

(1) TLC checks on Stacks.tla that every command dispatch path and fault point keeps the scope stack and the call
    stack balanced at every command boundary (NoLeak, PopsMatch), nested to depth 4.
(2) Programs with a fault leaf at every position (TLC, InterpGen profile C18) are executed N times in ONE shell
    process; the k-th iteration must print exactly what the first printed, and the number of open descriptors and
    of child processes measured inside the shell after iteration 1 and after iteration N must be equal.
(3) The scope / frame / program-boundary hook events of every such run are validated by TLC against Stacks.tla:
    every pop finds the kind it expects and the depths at every command boundary equal those at program start."""
import random
from .common import *
from . import interp_check as ic
from .render import Renderer, PRELUDE

PROP = "C18"
# The shell reaps children and drops pidfds / pipe ends asynchronously, so two measurements of an unchanged shell can
# differ by a descriptor or two; a per-iteration leak grows by at least N - 1 (N >= 12). Growth above the slack is a leak.
FD_SLACK, KID_SLACK = 3, 2
EXTRA_PRELUDE = '''readonly RO=1
FF() { nosuchcmd_ff; return 3; }
FR() { echo in-fr; } < /nonexistent_dir/fr
PROBE() { ls /proc/$$/fd > "$HOME/fds.$1"; cat /proc/$$/task/*/children > "$HOME/kids.$1" 2>/dev/null; }
REPORT() { echo "probe:$1 fds=$(wc -l < "$HOME/fds.$1") kids=$(wc -w < "$HOME/kids.$1")"; }
'''


# hand-written bodies: failures that leave a loop, a function or a list part-way (errors in arithmetic-for headers and bodies, recoverable
# errors inside loops), at top level where nothing else restores the interpreter's counters.  (Level counts beyond the nesting are C02's
# business: F-C02 BreakNotClamped.)
RAW_BODIES = [
    'for ((i=0; i<1/0; i++)); do echo never; done',
    'for ((i=0; i<2; i++)); do echo $((1/0)); echo unreached; done',
    'for ((i=1/0; i<2; i++)); do :; done',
    'for ((i=0; i<2; i+=1/0)); do echo once; done',
    'while :; do echo $((1/0)); break; done',
    'until false; do (( 1/0 )); echo after-err; break; done',
    'for x in a b; do echo $((x/0)); done',
    'for x in a; do for ((j=0; j<1/0; j++)); do :; done; echo inner-done; done',
    'f() { for ((;1;)); do return $((1/0)); done; }; f',
    'f() { while :; do for ((i=0;i<1/0;i++)); do :; done; break; done; }; f; f',
    'case x in x) for ((;1/0;)); do :; done ;; esac',
    '{ for ((i=0; i<1/0; i++)); do :; done; } 2>/dev/null; if (( 1/0 )); then :; fi',
    'for ((i=0; i<2; i++)); do nosuchcmd_zz; FR; done',
    'for ((i=0; i<2; i++)); do RO=2; echo ro-$i; done',
    'eval "for ((i=0; i<1/0; i++)); do :; done"',
]


def build_script(P, n_iter, raw=None):
    if raw is None:
        r = Renderer(P, use9=False)
        body = r.r(1)
        ctr = " ".join(["q%d" % (i + 1) for i, nd in enumerate(P) if nd["t"] == "while"] + ["k%d" % (i + 1) for i, nd in enumerate(P) if nd["t"] == "kc"])
    else:
        body, ctr = raw, ""
    lines = [PRELUDE % {"R": ""}, EXTRA_PRELUDE]
    for k in range(n_iter):
        lines.append(body)
        # outside any loop `break` / `continue` are refused and the script goes on: with a leaked loop counter they would silently end it
        lines.append("__s=$?; break 2>/dev/null; continue 2>/dev/null; echo \"it:$__s\"")
        if ctr:
            lines.append("unset " + ctr)
        if k == 0:
            lines.append("PROBE first")
    lines.append("PROBE last")
    lines.append("REPORT first")
    lines.append("REPORT last")
    return "\n".join(lines) + "\n"


def split_iterations(out):
    its, cur, probes = [], [], {}
    for ln in out.splitlines():
        if ln.startswith("probe:"):
            m = re.match(r"probe:(\w+) fds=(\d+) kids=(\d+)", ln)
            if m:
                probes[m.group(1)] = (int(m.group(2)), int(m.group(3)))
            continue
        cur.append(ln)
        if ln.startswith("it:"):
            its.append(cur)
            cur = []
    return its, probes, cur


def segments_of(events):
    """split one process' events into per-shell-object record lists for Trace_Stacks"""
    cs_env = {}
    for e in events:
        if e["ev"] in ("prog_begin", "cmd_done", "prog_end"):
            cs_env[e["cs"]] = e["env"]
    by = {}
    for e in events:
        if e["ev"] in ("scope_push", "scope_pop", "prog_begin", "cmd_done", "prog_end"):
            by.setdefault(e["env"], []).append(e)
        elif e["ev"] in ("frame_push", "frame_pop") and e["cs"] in cs_env:
            by.setdefault(cs_env[e["cs"]], []).append(e)
    segs = []
    for env, evs in by.items():
        evs.sort(key=lambda e: e["seq"])
        s0 = f0 = None
        for e in evs:
            if s0 is None:
                if e["ev"] == "scope_push":
                    s0 = e["depth"] - 1
                elif e["ev"] == "scope_pop":
                    s0 = e["depth"] + 1
                elif "scopes" in e:
                    s0 = e["scopes"]
            if f0 is None:
                if e["ev"] == "frame_push":
                    f0 = e["depth"] - 1
                elif e["ev"] == "frame_pop":
                    f0 = e["depth"] + 1
                elif "frames" in e:
                    f0 = e["frames"]
        recs = [{"ev": "reset", "scopes": s0 or 0, "frames": f0 or 0, "kind": "", "depth": 0}]
        for e in evs:
            recs.append({"ev": e["ev"], "kind": e.get("kind", ""), "depth": e.get("depth", 0), "scopes": e.get("scopes", 0), "frames": e.get("frames", 0)})
        segs.append(recs)
    return segs


def validate(segs):
    d = tempfile.mkdtemp(prefix="trs-", dir=scratch())
    path = os.path.join(d, "trace.ndjson")
    n = 0
    with open(path, "w") as f:
        for seg in segs:
            for r in seg:
                f.write(json.dumps(r) + "\n")
                n += 1
    r = run_tlc("Trace_Stacks", "Trace_Stacks.cfg", workers=1, env={"TRACE": path}, deque=True, timeout=3000, xmx="6g")
    shutil.rmtree(d, ignore_errors=True)
    msg = None
    if not r["ok"]:
        m = re.search(r'<<"REJECTED_AT".*', "\n".join(r.get("notes", [])) + r.get("full", "") + r["out"])
        msg = m.group(0) if m else r["violation"]
    return r["ok"], n, msg, r["states"]


def run(tier):
    v = Verdict(PROP, tier, "model_checking")
    build_harness()
    mc = run_tlc("Stacks", "MC_Stacks.cfg", workers=min(8, NCPU), coverage=True, timeout=1800)
    if not mc["ok"]:
        raise ToolError("Stacks.tla violates NoLeak/PopsMatch: %s" % mc["violation"])
    progs, gstats = ic.gen_programs(["MC_InterpGen_c18_quick.cfg"])
    total = len(progs)
    progs, groups = ic.stratified(progs, 1, SEED)
    rnd = random.Random(SEED)
    if tier == "quick":
        progs = rnd.sample(progs, min(len(progs), 2500))
    iters = (2, 12) if tier == "quick" else (2, 50, 500)
    runs = []
    for k, P in enumerate(progs):
        n = iters[1] if (tier == "quick" or k % 25) else iters[-1]
        runs.append({"k": k, "P": P, "n": n, "script": build_script(P, n)})
    for raw in RAW_BODIES:
        runs.append({"k": len(runs), "P": None, "n": iters[1], "script": build_script(None, iters[1], raw=raw)})

    def one(rn):
        d = tempfile.mkdtemp(prefix="c18-", dir=scratch())
        tr = os.path.join(d, "trace.ndjson")
        env = dict(BASE_ENV, HOME=d, HISTFILE=os.path.join(d, ".h"), PATH=bin_path("") + ":/usr/bin:/bin", TMPDIR=d, BRUSH_VERIF_TRACE=tr)
        with open(os.path.join(d, "s.sh"), "w") as f:
            f.write(rn["script"])
        r = run_proc(shell_cmd("brush") + ["s.sh"], d, env, None, 120)
        evs = []
        if os.path.exists(tr) and rn["k"] % (1 if tier == "quick" else 4) == 0:
            with open(tr) as f:
                for ln in f:
                    try:
                        e = json.loads(ln)
                    except ValueError:
                        continue
                    if e["ev"] in ("scope_push", "scope_pop", "frame_push", "frame_pop", "prog_begin", "cmd_done", "prog_end"):
                        evs.append(e)
        shutil.rmtree(d, ignore_errors=True)
        return {"rn": rn, "r": r, "events": evs}
    results = pmap(one, runs)
    segs, owners = [], []
    n_it = 0
    for res in results:
        rn, r = res["rn"], res["r"]
        its, probes, tail = split_iterations(r["out"])
        ok = True
        why = None
        if r["timeout"] or panic_site(r["err"]):
            ok, why = False, "hang or panic"
        elif len(its) != rn["n"]:
            ok, why = False, "the shell did not survive %d iterations (got %d)" % (rn["n"], len(its))
        elif any(it != its[0] for it in its):
            bad = next(i for i, it in enumerate(its) if it != its[0])
            ok, why = False, "iteration %d differs from iteration 1: %r vs %r" % (bad + 1, its[bad], its[0])
        elif "first" not in probes or "last" not in probes:
            ok, why = False, "resource probes missing"
        elif probes["last"][0] - probes["first"][0] > FD_SLACK or probes["last"][1] - probes["first"][1] > KID_SLACK:
            ok, why = False, "resources grew: after iteration 1 %r, after iteration %d %r (fds, children)" % (probes["first"], rn["n"], probes["last"])
        n_it += len(its)
        if not ok:
            v.violation("prog:%d" % rn["k"], {"kind": why, "script": rn["script"], "stdout_tail": r["out"][-600:], "stderr_tail": r["err"][-400:], "program": rn["P"]})
        by_pid = {}
        for e in res["events"]:
            by_pid.setdefault(e["pid"], []).append(e)
        for pid, evs in by_pid.items():
            for s in segments_of(evs):
                segs.append(s)
                owners.append(rn["k"])
    if not segs:
        raise ToolError("no stack events recorded: hooks not firing")
    # binding self-test: drop one scope_pop from a recorded segment -> must be rejected
    probe = next((s for s in segs if sum(1 for r in s if r["ev"] == "scope_pop") >= 2 and any(r["ev"] == "cmd_done" for r in s)), None)
    if probe:
        i = next(i for i, r in enumerate(probe) if r["ev"] == "scope_pop")
        okc, _, _, _ = validate([probe[:i] + probe[i + 1:]])
        if okc:
            raise ToolError("self-test failed: a trace with a missing scope_pop was accepted")
    ok, nev, msg, tstates = validate(segs)
    if not ok:
        bi = bisect_rejected(segs, lambda ss: validate(ss)[0])
        bad = (segs[bi], owners[bi], validate([segs[bi]])[2]) if bi is not None else None
        rn = runs[bad[1]] if bad else None
        v.violation("trace:%s" % (bad[1] if bad else "?"), {"kind": "recorded execution is not a behaviour of Stacks.tla (unbalanced scope/call stack)", "rejected": bad[2] if bad else msg,
                                                           "script": rn["script"] if rn else None, "events_head": bad[0][:60] if bad else None})
    return v.finish({
        "states": mc["states"] + gstats["states"] + tstates, "transitions": mc["states"] + gstats["states"] + tstates, "distinct_states": mc["distinct"] + gstats["distinct"],
        "traces_validated_against_impl": len(segs), "trace_events": nev,
        "evaluations": n_it, "distinct_nontrivial": len(runs),
        "rule": "programs generated by TLC (InterpGen profile C18: a fault leaf - missing input file, unwritable target, unknown command, bad substitution, readonly target, "
                "failing function called with a temporary assignment, readonly temporary assignment, function with a failing definition-time redirect, return/break/continue, "
                "failing command, nounset - at every position of every construct-in-construct chain incl. subshells, command substitutions, pipelines, eval, functions), each "
                "repeated N times in one shell; evaluations = iterations executed; every program is non-trivial (contains a fault leaf) and distinct by text",
        "programs_generated": total, "strata": groups, "programs_run": len(runs), "iterations_per_program": list(iters),
        "model": {"config": "MC_Stacks.cfg", "states": mc["states"], "distinct": mc["distinct"], "invariants": ["NoLeak", "PopsMatch"]},
        "exhaustive": False,
        "samples": [{"script_body": Renderer(runs[0]["P"], use9=False).r(1)}, {"trace_head": segs[0][:12]}],
    }, assumptions=["descriptor and child counts are sampled inside the shell through /proc/$$ with the same probe both times",
                    "the oracle is self-consistency (iteration k == iteration 1), independent of bash"])


def replay(path):
    with open(path) as f:
        c = json.load(f)
    build_harness()
    r = run_script("brush", c["script"], front="file", timeout=120)
    its, probes, _ = split_iterations(r["out"])
    bad = (not its) or any(it != its[0] for it in its) or "last" not in probes or probes["last"][0] - probes["first"][0] > FD_SLACK or probes["last"][1] - probes["first"][1] > KID_SLACK
    print(probes, len(its))
    if bad:
        print("VIOLATION property=%s replay=%s" % (PROP, path))
    return 1 if bad else 0
