#!/usr/bin/env python3
"""Regenerates /verif/MANIFEST.json from the table below (single source of truth for the interface)."""
import json, os, subprocess
V = os.path.dirname(os.path.dirname(os.path.abspath(__file__)))
ALL = ["C%02d" % i for i in range(1, 21)]

MC = "model_checking"
CHECKS = {
 "C02": dict(level=MC, thorough=True, tech="TLA+ Interp.tla small-step machine; TLC generates programs (InterpGen) and predictions; replay into brush with bash audit",
   text="TLC enumerates control-flow programs (every construct in every hole of every construct x every control leaf), runs each on the "
        "Interp.tla machine with invariants checked in every state, and the predicted marker/$? trace and exit status of every program is "
        "replayed into the real brush (and bash as an audit of the model). Exhaustive within the stated depth/size constants; beyond them seeded simulation.",
   note="Trusted: TLC, the syntax-only renderer, bash 5.2.15 as reference, the scripted-leaf prelude (validated per run). Bounds: nesting depth 2 (quick) / 3 + simulation depth 4 (thorough).",
   ref="DESIGN.md section 6 C02, Appendix A"),
 "C03": dict(level=MC, thorough=True, tech="TLA+ Interp.tla (errexit suppress flag vs declarative exemption, nounset, pipefail); TLC-generated programs x option sets replayed into brush with bash audit",
   text="Same machine as C02 with options: TLC checks in every state that the copied suppress flag equals the declarative exemption computed from the "
        "continuation stack (SuppressAgrees) and emits, for a failing leaf / option toggle / unset expansion at every position of every construct chain "
        "(incl. pipelines, command substitutions, functions, eval, subshells) under the relevant option sets, the exact marker trace and exit status; each is replayed into brush.",
   note="Trusted: TLC, renderer, bash 5.2.15 as reference (7 cases where bash deviates from its own documented rule are excluded by the audit), prelude. "
        "The status of a fatal expansion error is only required to be non-zero (1 and 127 identified).",
   ref="DESIGN.md section 6 C03"),
 "C16": dict(level=MC, thorough=True, tech="TLA+ Interp.tla with EXIT/ERR handler frames and termination sequence; TLC-generated ways out x trap prefixes replayed through -c, script file and stdin front-ends",
   text="Interp.tla models trap registration, handler invocation frames (saved $?, re-entrancy), the termination sequence and every way out of the shell; "
        "TLC checks ExitOnce/DoneClean in every state and predicts, for each way out at every position of every construct chain x trap set/replaced/removed/"
        "ERR+EXIT x handler kind, the marker trace, the $? seen by the handlers and the exit status; each prediction is replayed through the three front-ends of the real shell.",
   note="Trusted: TLC, renderer, bash 5.2.15 reference, prelude. Three recorded findings are reproduced exactly by as-built disjuncts of the spec (ExitInExitTrapIgnored, "
        "ErrTrapOnAnyFlow, ErrTrapRearmedOnExit); errtrace (set -E) shapes are not generated while ErrTrapOnAnyFlow is recorded.",
   ref="DESIGN.md section 6 C16"),
 "C20": dict(level=MC, thorough=True, tech="TLA+ History.tla exhaustively model-checked (all histories <= 7 ops, 2 sessions); TLC-emitted behaviours replayed into the real History/Shell code with full abstract-state comparison after every action",
   text="The history file and the sessions' item lists are modelled explicitly (dirty flags, timestamp lines, import rules); TLC proves NoDup, SavedPresent, InOrder, "
        "TsAttached, ReloadEq and SaveIdemAct for every history of up to 7 operations over two sessions, and emits every history of 5 (one session) / 4 (two sessions) operations "
        "plus simulated 12-operation histories; bin histdrv performs each on the real code and file bytes + item lists are compared after every step.",
   note="Trusted: TLC, the harness' projection (file lines with `#<digits>` normalised, items as (text, dirty, has timestamp)). Single-line commands; file private to the case.",
   ref="DESIGN.md section 6 C20, Appendix D"),
 "C17": dict(level=MC, thorough=True, tech="TLA+ Jobs.tla (all interleavings of task begin/end with launch/wait/poll) + trace validation of hook events (Trace_Jobs.tla) + scenario replay over finishing permutations",
   text="TLC explores every interleaving of up to 4 (thorough 6) background tasks with launches, wait, wait %n and completion polls and checks DistinctIds, WaitComplete, "
        "WaitedEnded, NoLostJob and that wait returns; the real shell is run on job sets realising every finishing permutation (n <= 4) from top level / functions / loops, "
        "as file and over stdin, on 1 / 2 / all CPUs and with pause points, and every execution's hook events (job_add, task_begin/end, wait_all_begin/end, job_waited, job_remove; "
        "sequence numbers taken under the sink lock) are validated by TLC as a behaviour of Jobs.tla with all invariants evaluated after every event.",
   note="Trusted: TLC, the hook placement (task_end is emitted by the task after its body and before its join handle is ready). A corrupted trace (task_end moved after wait_all_end) must be rejected in every run (self-test). "
        "Stopped jobs, process groups, terminals not modelled.",
   ref="DESIGN.md section 6 C17"),
 "C09": dict(level=MC, thorough=True, tech="TLA+ Env.tla (scope stack of global / function / temporary-assignment frames with tombstones; attributes shaping every writer; readonly refusing every writer) explored by TLC over every program of L steps of four step alphabets (MC_Env.tla), with ReadonlyStable and EnterLeaveNeutral checked in every state; each program replayed in brush with bash audit, observing value, attribute letters and a child process's environment after every step",
   text="A program is a flat sequence of steps (eight kinds of writers, local / declare / export / readonly with and without values, unset, function entry, function entry under NAME=v, return); TLC enumerates every program of 4 (thorough 5) steps per profile "
        "(~130k, sampled to ~17k in quick), checks on every reachable scope stack that no step changes a readonly variable and that entering and leaving a function is neutral, and prints the observation after every step; the driver compares them with "
        "${x-U}, declare -p and the environment received by a child (envq) in bash and in brush.",
   note="Trusted: TLC, bash 5.2.15 (programs where bash itself departs from the model, ~8%, are not judged - mostly bash's tempenv propagation rules), the envq helper. Statuses of the steps are not compared, only the state. Five recorded findings.",
   ref="DESIGN.md section 6 C09"),
 "C10": dict(level=MC, thorough=True, tech="TLA+ Fd.tla (open file descriptions with shared offsets, per-command copy of the descriptor table, left-to-right redirection lists, noclobber, exec) and HereDoc.tla (delimiter forms, tab stripping, expansion and backslash rules) evaluated by TLC on programs drawn by index (MC_Fd.tla) and on every short line sequence (MC_HereDoc.tla); replayed in brush with bash audit using a probe command that reports the descriptors it received",
   text="Fd.tla: Redirs applies a list left to right to a copy of the table, the first failure stops it; Probe writes a tag to every writable descriptor and reports descriptors with access modes and what it read from 0; exec threads the table to "
        "the following statements. 6000 programs (quick) with lists of <= 3 of 34 redirections on simple commands and on seven kinds of compound commands nested two levels are compared on file contents, stdout / stderr tag sequences and probe "
        "reports, and a final probe inventories the shell's own table. HereDoc.tla: Body(form, lines) for every sequence of <= 2 (thorough 3) of 25 lines x 4 delimiter forms in 7 syntactic placements.",
   note="Trusted: TLC, bash 5.2.15 (audit), the fdprobe helper (it treats /dev/null on 0-2 as 'closed' because the Rust runtime opens it there). Diagnostics are ignored; when a diagnostic lands in a compared file through a redirected stderr "
        "the file contents of that program are not compared; sizes of holes are not compared. One recorded finding (documents not terminated before end of input).",
   ref="DESIGN.md section 6 C10"),
 "C11": dict(level=MC, thorough=True, tech="TLA+ Pipeline.tla (bounded pipes, end holders, spawn/wait order; deadlock + liveness for all stage-kind/payload/early-exit configurations) + trace validation (Trace_Pipeline.tla) + replay with real sizes against bash",
   text="TLC checks InOrderOnce, AllDelivered, NoLeakedEnds, SpawnBeforeWait, deadlock freedom and termination for every configuration of 3 (thorough 4) stages x payloads around the pipe capacity x early-exit readers, "
        "and shows that the former as-built rule (compound stage run inline) deadlocks; the same configurations are run with real stage kinds and 10 B - 1 MiB (8 MiB) payloads in brush and bash "
        "(byte count, checksum, $?, PIPESTATUS, completion), with pause points after each spawn / before wait; every run's pl_* hook events are validated against the spec.",
   note="Trusted: TLC, bash 5.2.15 for data and statuses, gen/cksum helpers. With an early-exit consumer an upstream PIPESTATUS entry may be 0 or 141 (both are behaviours of the model). Process groups / terminals not modelled.",
   ref="DESIGN.md section 6 C11, Appendix G"),
 "C18": dict(level=MC, thorough=True, tech="TLA+ Stacks.tla (dispatch paths x fault points keep scope/call stacks balanced) + trace validation of scope/frame/boundary hook events (Trace_Stacks.tla) + N-fold repetition with resource probes",
   text="TLC checks on Stacks.tla that every command dispatch path and fault point (temporary-assignment error, refused function call, failing body, eval/source/trap frames) nested to depth 4 leaves the scope stack "
        "and the call stack exactly as deep at every command boundary as when the program began; TLC-generated programs with a fault leaf at every position are then repeated N times in one shell: identical output per "
        "iteration, no growth of descriptors / children, and every run's scope_push/pop, frame_push/pop, prog_begin/cmd_done/prog_end events are validated by TLC against the spec (pop finds the expected kind; depths at every boundary).",
   note="Trusted: TLC, the hook placement in env.rs / callstack.rs / Program::execute, /proc for descriptor and child counts (slack of 3 descriptors / 2 children for asynchronous reaping; a per-iteration leak grows by >= N-1). "
        "A trace with one scope_pop removed must be rejected in every run (self-test).",
   ref="DESIGN.md section 6 C18"),
 "C08": dict(level=MC, thorough=True, tech="TLA+ Glob.tla (pattern tokens -> AST -> Match, incl. brackets, classes, extglob, nocasematch) evaluated exhaustively by TLC over all (pattern, subject) pairs; every pattern replayed against every subject in brush with bash audit",
   text="Glob.tla defines parsing and whole-string matching of shell patterns; TLC enumerates every pattern of <= 4 tokens over a 10-token metacharacter alphabet (plus bracket-class and extglob families) "
        "and every subject of <= 3 characters (including newline and a multi-byte character), decides each pair, checks sanity properties of the definition, and emits per pattern the set of matching subjects; "
        "the real shell evaluates every pattern against every subject in `case`, `[[ == ]]`, nocasematch and pathname expansion.",
   note="Trusted: TLC, bash 5.2.15 as the authority for \"matches\" (72 extglob texts on which bash deviates from its documented semantics are excluded by the audit), C.UTF-8 code-point order. "
        "Pattern texts whose meaning POSIX leaves unspecified (WellDefined = FALSE) are not judged.",
   ref="DESIGN.md section 6 C08, Appendix F"),
 "C04": dict(level=MC, thorough=True, tech="TLA+ WordExp.tla (marked-character fields through Brace -> Pieces -> Split -> Glob -> Unquote) with QuotedIdentity / SplitKeepsQuoted checked by TLC for every value and environment; argument lists of the unquoted forms and the identity of the quoted forms replayed into brush (bash audit) in every expansion context x IFS x glob option",
   text="WordExp.tla tags every character as quoted / expansion result / literal; TLC checks on every value of <= 2 (thorough 3) characters x 64 environments that the quoted forms never reach Split or Glob (QuotedIdentity) and that "
        "splitting leaves quoted characters alone, and emits the argument lists of $x, a$x\"$x\", ${u:-$x}, $x*, $(..), $@, ${a[@]} under 8 IFS values and two directories for replay; the identity of the quoted forms is then "
        "replayed for ~2400 adversarial values (every string of <= 2 characters over 31 metacharacters, specials, random) in 44 contexts x IFS x glob-option configurations in a directory containing names the value could match.",
   note="Trusted: TLC, bash 5.2.15 (audit; patterns with undefined meaning are not judged), C.UTF-8. Two recorded findings pinned by the suite's known_failure cases: literal text is split by IFS, no empty fields next to non-whitespace IFS characters.",
   ref="DESIGN.md section 6 C04"),
 "C05": dict(level=MC, thorough=True, tech="TLA+ WordExp.tla evaluated by TLC on every word of <= 2 (thorough 3, strided) pieces from a 46-piece pool x environments (IFS, directory, positional parameters, values); each argument list replayed in brush with bash audit; as-built deviations are named switches of the same specification",
   text="Expand(word, env) of WordExp.tla is the argument list: brace expansion, then the pieces left to right (tilde, parameter, command, arithmetic) with quoted / splittable marks, POSIX field splitting, pathname expansion with "
        "the dot-file rule and sorted matches, quote removal. TLC evaluates it on every word x environment (123k in quick) and the driver compares count, order and contents with brush's arguments (printf %s\\0) and `y=word`.",
   note="Trusted: TLC, bash 5.2.15 (a (word, environment) counts only if bash reproduces the model; 0.4% excluded, mostly bash's own ${e:-$@} quirk), C.UTF-8. Two recorded findings pinned by known_failure cases (brace words re-joined with blanks; \"$*\" with empty IFS).",
   ref="DESIGN.md section 6 C05"),
 "C07": dict(level=MC, thorough=True, tech="TLA+ Arith.tla (token-level recursive-descent reader with bash's precedence table, evaluator threading the variable environment) over Word64.tla (two's-complement 64-bit words as byte sequences: wrapping add/mul, restoring division, shifts, bitwise, power) evaluated by TLC on families of token sequences; each replayed in brush with bash audit in $(( )), (( )), let, subscripts, offsets, declare -i",
   text="Parse(toks) is the tree bash builds; Eval threads assignments and ++/-- left to right with short-circuit and recursive evaluation of variable contents; literals are digit sequences in bases 2..64 folded with wrap-around. "
        "TLC evaluates ~43k expressions in quick (all operator pairs without parentheses, all 20 binary operators over 28 boundary operands, unary/assignment/increment/conditional mixes, malformed inputs, depth-3 trees); the driver renders each with "
        "minimal spacing, wide spacing and the model's full parenthesisation and compares value, status and the variables afterwards.",
   note="Trusted: TLC, bash 5.2.15 (audit), Word64.tla (its Add/Mul/Div are cross-checked against bash through every row). Shift counts outside 0..63 are C-undefined and not judged. Four recorded findings (integer attribute, (( )) error flow, ?: in a substring offset, `c ? a : y=2`).",
   ref="DESIGN.md section 6 C07"),
 "C06": dict(level=MC, thorough=True, tech="TLA+ ParamOps.tla (substring, prefix/suffix removal stated declaratively over Glob.tla's Match, replacement, case modification, default/assign/alternative/error operators) evaluated exhaustively by TLC; every (value, operator) pair replayed in brush with bash audit",
   text="ParamOps.tla defines each operator's result; TLC evaluates every value of <= 3 characters (blanks, newline, glob character, multi-byte) x every operator instance (offsets/lengths over negative, zero, "
        "in-range and out-of-range integers; every pattern of <= 2 tokens) and checks the declarative shortest/longest clause (RemovalSound) and SubstrSound on every value; the 112k results are compared with the real shell's.",
   note="Trusted: TLC, bash 5.2.15 (0 disagreements with the model on the enumerated domain), C.UTF-8. Not yet in the spec: ${!v}, ${!a[@]}, array/positional slicing, @-transformations (see C13 for @Q), arithmetic-expression offsets.",
   ref="DESIGN.md section 6 C06"),
 "C14": dict(level=MC, thorough=True, tech="TLA+ Printer.tla: token-level model of the printer's separator rule for redirection lists with the soundness property (no two tokens fuse), model-checked in its repaired and as-found forms, and the round-trip protocol (FixedPoint, SameBehaviour) checked on real definitions: bodies generated by TLC from InterpGen.tla (profiles C18, C02) and hand-written bodies, printed by declare -f, re-read by brush and by bash, printed again, run three ways",
   text="For ~2700 function bodies (quick) the shell prints the function, defines it afresh from the printed text and prints it again: the two texts must be identical, brush and bash must both accept the text, and the original, "
        "the re-read function and the function exported to a child shell (BASH_FUNC_F%%) must produce the same output and status; bash running brush's text must behave like bash running the original source.",
   note="Trusted: TLC (generation, Printer.tla's soundness check), bash 5.2.15. The TLA+ model covers the separator rule only; the other node printers are exercised through the protocol, not modelled. One recorded finding (nested subshells re-read as arithmetic, pinned by a parser snapshot).",
   ref="DESIGN.md section 6 C14"),
 "C15": dict(level=MC, thorough=True, tech="three TLA+ specifications: (a) Interp.tla predictions replayed through five delivery modes (file, -c, stdin, source, eval) with $LINENO probes; (b) Complete.tla: line-level machine of open constructs, every valid prefix of <= 3 (thorough 4) lines with its NeedsMore verdict, compared with the implementation's completeness decision called in-process (bash -n audits the model); (c) Caches.tla: LRU cache with the Transparent invariant (and its violation when the key omits the options), every history of <= 4 lookups with eviction instantiated on option-sensitive texts through the four caching parser entry points in one long-lived process",
   text="(a) one model prediction per TLC-generated program must be reproduced in every delivery mode, and the $LINENO values of the probes must equal bash's in the same mode; (b) the shell must wait for more input exactly on the prefixes "
        "the line machine leaves open (5157 prefixes in quick); (c) every lookup of every history must return what the same lookup returns as the first lookup of a fresh process (12 of the 36 (entry point, text) pairs are option-sensitive).",
   note="Trusted: TLC, renderer, bash 5.2.15 (bash -n for (b): an unexpected-end-of-file error means incomplete). `return` at top level is a different program under `source` (skipped there). Two recorded findings: $LINENO inside eval'd text; "
        "an unparenthesised case pattern inside $( ) ends the substitution.",
   ref="DESIGN.md section 6 C15"),
 "C19": dict(level=MC, thorough=True, tech="TLA+ Spans.tla predicate evaluated by TLC on every recorded highlight_command call (trace validation of a pure function); lines enumerated exhaustively over a metacharacter alphabet plus fragment concatenations, every cursor position",
   text="Spans!SpansOK states the partition property (ordered, contiguous, non-overlapping, character-aligned, covering); every line of <= 3 (thorough 4) characters over an 18-symbol alphabet (quotes, $, parentheses, "
        "backslash, newline, multi-byte, here-doc and redirection characters) plus thousands of fragment concatenations is highlighted in-process at every cursor position under catch_unwind, and TLC evaluates the predicate on every record.",
   note="Trusted: TLC, the harness' recording of (len, boundaries, spans). The predicate is simple; the value is the enumerated input set and the uniform treatment (one statement of the property). A record with a gap must be rejected (self-test).",
   ref="DESIGN.md section 6 C19"),
 "C01": dict(level="exploration", thorough=True, tech="TLA+ Lexer.tla (lexical mode automaton of the reader) generates every reachable text of <= N atoms (= cut inputs) with its minimal completion; boundary literals x numeric templates; nesting families to depth 64; executed in-process (6 parser entry points, catch_unwind) and by the real shell",
   text="Model-directed exploration: TLC enumerates the texts the reader's mode automaton can reach (every prefix is an input cut at that point) and their completions; together with boundary numerals substituted into ~60 numeric positions of the language "
        "and nesting families to depth 64 they are run through the in-process parser entry points and executed with -c and over stdin. Oracle: an exit status - no panic, abort, signal, hang - and a diagnostic with non-zero status for incomplete texts (where bash agrees).",
   note="Exploration level: the quantifier of C01 (all character sequences, byte-level mutation) is a fuzzing quantifier; TLC contributes the generation, the oracle is trivial. Inputs longer than the bounds and arbitrary byte mutations are not covered. "
        "A hang is declared only when bash finishes the same text.",
   ref="DESIGN.md section 6 C01, section 11"),
 "C12": dict(level=MC, thorough=True, tech="TLA+ Subshell.tla (parent and clone as records of component versions; Fork / Mutate / Join; invariant Isolation in the ideal configuration, OnlyProcessWideLeaks with the recorded deviation) explored exhaustively by TLC over 10 subshell contexts x every sequence of <= 2 of 34 mutators; every behaviour replayed in brush with bash audit by dumping the parent's full state before and after",
   text="TLC proves on the model that only status and output flow back (Isolation) and, for the clone-in-one-process design, that only process-wide components can leak and only when the subshell changed them. Each of the 11560 behaviours "
        "is turned into a script: a dump function records variables (declare -p), functions, set -o, shopt, aliases, traps, directory, umask, ulimit -a, positional parameters, /proc/self/fd, the directory stack and the hash table before "
        "and after the subshell; the set of components that changed must equal the model's.",
   note="Trusted: TLC, bash 5.2.15 (its dump must be unchanged for the case to count; volatile variables are filtered), /proc. Two recorded findings: umask / ulimit are process-wide; a finished coprocess leaves COPROC and its descriptors behind.",
   ref="DESIGN.md section 6 C12"),
 "C13": dict(level=MC, thorough=True, tech="TLA+ Quote.tla (the shell reader for a quoted word: quotes, backslash, $'...' escapes, what would expand or split) evaluated by TLC on every recorded (value, rendering); plus eval round trips in brush and bash for word and declaration forms",
   text="Quote.tla is an independent reader; every value of <= 3 characters over a 12-symbol quoting alphabet (quotes, backslash, $, backquote, !, blank, newline, CR, control, multi-byte), values with special leading characters and seeded long random values "
        "is rendered by the real shell through printf %q, ${v@Q}, ${v@A}, declare -p (scalar / indexed / associative), export -p, set, alias, trap -p and the set -x trace; TLC checks Read(text) = value on every word-form record and each rendering is eval'ed in a fresh brush and a fresh bash.",
   note="Trusted: TLC, the extraction of the quoted word from alias / trap -p / xtrace lines, bash as one of the readers. Values are valid UTF-8 without NUL, injected through the environment. One recorded finding: brush cannot re-read associative-array keys that contain `]` or need $'...'.",
   ref="DESIGN.md section 6 C13"),
}
PENDING_REASON = "check not built yet in this round (planned, see DESIGN.md section 12); no claim is made"

def main():
    hooks = subprocess.run(["git", "-C", "/repo", "log", "--format=%H %s"], capture_output=True, text=True).stdout.splitlines()
    hook_commits = [l.split()[0] for l in hooks if " verif hooks:" in l]
    checks = []
    for pid in ALL:
        if pid not in CHECKS:
            continue
        c = CHECKS[pid]
        e = {"property_id": pid, "quick_cmd": "./check %s quick" % pid, "evidence_file": "evidence/%s.json" % pid,
             "replay_cmd_template": "./check %s replay --replay {path}" % pid,
             "engine": "tla-mbt",
             "level_claimed": {"category": c["level"] if c["level"] != MC else MC, "text": c["text"], "design_ref": c["ref"]},
             "level_note": c["note"], "technique": c["tech"]}
        if c.get("thorough"):
            e["thorough_cmd"] = "./check %s thorough" % pid
        checks.append(e)
    m = {"version": 1,
         "setup_cmd": "./setup.sh",
         "hooks": {"guard": "brush_verif",
                   "enable": "harness/.cargo/config.toml passes --cfg brush_verif (and --check-cfg) to every crate built from /repo; target dir /verif/build/target",
                   "baseline_off_cmd": "./tools/baseline_off.sh",
                   "source_commits": hook_commits, "add_only": True},
         "engines": [{"name": "tla-mbt", "path": "spec/ + driver/ + harness/", "serves_properties": sorted(CHECKS),
                      "kind_free_text": "explicit TLA+ specifications checked with TLC; TLC-generated behaviours replayed into the real shell / traces recorded from the real shell validated against the specification"}],
         "checks": checks,
         "notes": "See DESIGN.md. KNOWN_FINDINGS.json lists recorded and fixed defects.",
         "not_applicable": [{"property_id": p, "reason": PENDING_REASON} for p in ALL if p not in CHECKS]}
    with open(os.path.join(V, "MANIFEST.json"), "w") as f:
        json.dump(m, f, indent=1)
    print("MANIFEST.json written:", len(checks), "checks")

main()
