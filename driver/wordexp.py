"""Shared machinery of C04 / C05: evaluate spec/WordExp.tla over a family (MC_WordExp.tla), render the words as
shell text, run them in bash (model audit) and in brush, and compare argument lists."""
from .common import *

CHM = {"NL": "\n", "TAB": "\t", "U": "é"}


def text(tokens):
    return "".join(CHM.get(t, t) for t in tokens)


def model(fam, np_, vl, stride=1, phases=(0,), workers=8, timeout=3000):
    """-> (pool, rows). rows: {w: [pool indices] | [w4 index], c: [ifs, dir, params, xidx], x, def, out, asg}"""
    d = tempfile.mkdtemp(prefix="wexp-", dir=scratch())
    rows, pool, states = [], None, 0
    for ph in phases:
        cfg = os.path.join(d, "m%d.cfg" % ph)
        with open(cfg, "w") as f:
            f.write('CONSTANTS Fam = "%s" NP = %d VL = %d Stride = %d Phase = %d\nINIT Init\nNEXT Next\nINVARIANT Emit\nCHECK_DEADLOCK FALSE\n' % (fam, np_, vl, stride, ph))
        r = run_tlc("MC_WordExp", cfg, workers=workers, want_lines=("ROW", "POOL"), timeout=timeout, xmx="12g")
        if not r["ok"] or r.get("notes"):
            raise ToolError("MC_WordExp failed (%s): %s %s\n%s" % (fam, r["violation"], (r.get("notes") or [])[:3], r.get("full", "")[-1500:]))
        rows += r["lines"]["ROW"]
        pool = r["lines"]["POOL"][0]
        states += r["distinct"]
    shutil.rmtree(d, ignore_errors=True)
    return pool, rows, states


NAMECH = re.compile(r"[A-Za-z0-9_{]")


def render_piece(p, nxt, indq, alt):
    k = p["k"]
    if k == "lit":
        return text(p["x"])
    if k == "sq":
        return "'" + text(p["x"]) + "'"
    if k == "esc":
        return "\\" + text([p["x"]])
    if k == "dq":
        return '"' + render_word(p["y"], True, alt) + '"'
    if k == "var":
        if alt or (nxt and NAMECH.match(nxt[0])):
            return "${%s}" % p["x"]
        return "$" + p["x"]
    if k == "at":
        return "$@"
    if k == "star":
        return "$*"
    if k == "arr":
        return "${%s[@]}" % p["x"]
    if k == "arrs":
        return "${%s[*]}" % p["x"]
    if k == "cs":
        return "$(printf '%%s\\n\\n' \"$%s\")" % p["x"] if not alt else "`printf '%%s\\n\\n' \"$%s\"`" % p["x"]
    if k == "ar":
        return "$((%d+2))" % (int(text(p["x"])) - 2)
    if k == "def":
        return "${%s:-%s}" % (p["x"], render_word(p["y"], indq, alt))
    if k == "alt":
        return "${%s:+%s}" % (p["x"], render_word(p["y"], indq, alt))
    if k == "tilde":
        return "~"
    if k == "brace":
        if p["x"] == ["seq"]:
            return "{1..3}"
        return "{" + ",".join(render_word(a, indq, True) for a in p["y"]) + "}"      # ${x} form: `{$x,b}a` would read $xa
    raise ValueError(k)


def render_word(pieces, indq=False, alt=False):
    outs = []
    for i in range(len(pieces) - 1, -1, -1):
        nxt = outs[0] if outs else ""
        outs.insert(0, render_piece(pieces[i], nxt, indq, alt))
    return "".join(outs)


def sq(s):
    return "'" + s.replace("'", "'\\''") + "'"


def setup_script(pool, c, with_dir=True):
    ifs, names = pool["ifs"][c[0] - 1], pool["dirs"][c[1] - 1]
    L = ["mkdir d; cd d || exit 9"]
    for n in names:
        L.append(": > %s" % sq(text(n)))
    L += ["x=$X; e=; unset u; s=' a  b '; g='a*'; a=(\"$x\" 'b c'); z=()",
          ["set --", 'set -- "$x"', 'set -- "$x" ""', "set -- 'a b' \"$x\" c"][c[2] - 1],
          "HOME='/h *'", "M() { printf 'R%s\\0' \"$1\"; }", "F() { printf '%s\\0' \"$#\" \"$@\"; }"]
    L.append("unset IFS" if ifs == ["UNSET"] else "IFS=%s" % ("$'" + "".join({"\n": "\\n", "\t": "\\t"}.get(ch, ch) for ch in text(ifs)) + "'"))
    return L


def row_lines(i, src, with_asg):
    L = ["M %d; F %s" % (i, src)]
    if with_asg:
        L.append('y=%s; F "$y"' % src)
    return L


def parse(out):
    f = out.split("\0")
    res, i = {}, 0
    while i < len(f):
        m = re.match(r"^R(\d+)$", f[i])
        if not m:
            i += 1
            continue
        idx = int(m.group(1))
        i += 1
        groups = []
        while i < len(f) and re.match(r"^\d+$", f[i]) and i + int(f[i]) < len(f):
            n = int(f[i])
            groups.append(f[i + 1:i + 1 + n])
            i += 1 + n
            if len(groups) == 2:
                break
        res[idx] = groups
    return res


def run_rows(shell, pool, c, xval, srcs, with_asg, timeout=300, depth=0):
    """srcs: list of (idx, source text). -> {idx: [fields, (assigned)] | ('died', stderr)}"""
    L = setup_script(pool, c)
    for j, (idx, src) in enumerate(srcs):
        L += row_lines(idx, src, with_asg[j])
    r = run_script(shell, "\n".join(L) + "\n", front="file", extra_env={"X": xval}, timeout=timeout)
    got = parse(r["out"])
    res = {}
    for j, (idx, src) in enumerate(srcs):
        need = 2 if with_asg[j] else 1
        if idx in got and len(got[idx]) >= need:
            res[idx] = got[idx]
        else:
            # the shell stopped (or lost its way) here: report this row, go on with the rest in a new process
            res[idx] = ("died", {"rc": r["rc"], "stderr": r["err"][-300:], "panic": r["panic"], "timeout": r["timeout"], "partial": got.get(idx)})
            if depth < 40 and j + 1 < len(srcs):
                res.update(run_rows(shell, pool, c, xval, srcs[j + 1:], with_asg[j + 1:], timeout, depth + 1))
            break
    return res
