\* C11 exhaustive: 3 stages, pipe capacity 2, payloads on both sides of the capacity, every kind / early-exit configuration
CONSTANTS
  N = 4
  CAP = 2
  Payloads = {0, 3}
  DEV = {}
SPECIFICATION Spec
INVARIANTS InOrderOnce AllDelivered NoLeakedEnds SpawnBeforeWait
PROPERTY Terminates
CHECK_DEADLOCK TRUE
