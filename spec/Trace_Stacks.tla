---------------------------- MODULE Trace_Stacks ----------------------------
(* Trace validation for C18: the scope / frame / program-boundary events recorded for ONE shell object
   (one environment + its call stack; the driver splits the process trace by identity and maps the call
   stack to its environment) must be a behaviour of Stacks.tla's primitive operations: every pop finds
   the kind it expects and, at every command boundary and program end, both stacks are exactly as deep
   as when that program began.  `reset` starts the next recorded shell with its initial depths.        *)
EXTENDS Stacks, Json, IOUtils

Rec == ndJsonDeserialize(IOEnv.TRACE)
VARIABLE l
tvars == <<vars, l>>

IsEv(e) == l <= Len(Rec) /\ Rec[l].ev = e /\ l' = l + 1
Keep == UNCHANGED <<todo, depth>>
TrPushS == IsEv("scope_push") /\ PushScope(Rec[l].kind) /\ Len(scopes') = Rec[l].depth /\ Keep
TrPopS  == IsEv("scope_pop") /\ PopScope(Rec[l].kind) /\ Len(scopes') = Rec[l].depth /\ Keep
TrPushF == IsEv("frame_push") /\ PushFrame(Rec[l].kind) /\ Len(frames') = Rec[l].depth /\ Keep
TrPopF  == IsEv("frame_pop") /\ PopFrame /\ Len(frames') = Rec[l].depth /\ Keep
TrBegin == IsEv("prog_begin") /\ Len(scopes) = Rec[l].scopes /\ Len(frames) = Rec[l].frames /\ ProgBegin /\ Keep
TrDone  == IsEv("cmd_done") /\ Len(scopes) = Rec[l].scopes /\ Len(frames) = Rec[l].frames /\ CmdDone /\ Keep
TrEnd   == IsEv("prog_end") /\ Len(scopes) = Rec[l].scopes /\ Len(frames) = Rec[l].frames /\ ProgEnd /\ Keep
Filler(n, x) == [i \in 1..n |-> x]
TrReset == IsEv("reset") /\ scopes' = Filler(Rec[l].scopes, "inherited") /\ frames' = Filler(Rec[l].frames, "inherited")
                          /\ progs' = <<>> /\ Keep

TraceInit == scopes = <<>> /\ frames = <<>> /\ progs = <<>> /\ todo = <<>> /\ depth = 0 /\ l = 1
TraceNext == TrPushS \/ TrPopS \/ TrPushF \/ TrPopF \/ TrBegin \/ TrDone \/ TrEnd \/ TrReset
TraceSpec == TraceInit /\ [][TraceNext]_tvars
Accepted == TLCGet("stats").diameter - 1 = Len(Rec)
Report == Accepted \/ Print(<<"REJECTED_AT", TLCGet("stats").diameter, IF TLCGet("stats").diameter <= Len(Rec) THEN Rec[TLCGet("stats").diameter] ELSE <<>>>>, FALSE)
=============================================================================
