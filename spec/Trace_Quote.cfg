SPECIFICATION Spec
INVARIANT AllOK
CHECK_DEADLOCK FALSE
