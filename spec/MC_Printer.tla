------------------------------ MODULE MC_Printer ------------------------------
EXTENDS Printer
Targets == {"/dev/null", "f", "1", "2"}
Rs == {Redir(fd, op, t) : fd \in {"", "2", "1"}, op \in {">", ">>", ">&", "<"}, t \in Targets}
RLists == {<<>>} \cup {<<a>> : a \in Rs} \cup {<<a, b>> : a \in Rs, b \in Rs}
Defs == {[kind |-> k, words |-> w, redirs |-> rs] : k \in {"simple", "loop"}, w \in {<<"echo">>, <<"echo", "x1">>}, rs \in RLists}
VARIABLE done
Init == done = FALSE
Next == done' = TRUE
AllSound == \A d \in Defs : Sound(d)
ASSUME Cardinality(Defs) > 1000
================================================================================
