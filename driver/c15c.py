"""C15 part (c) - parsing is a pure function of the text and the options (spec/Caches.tla).

TLC checks Transparent on Caches.tla (and that the key-without-options deviation violates it) and enumerates every
history of <= 4 lookups over 3 text classes x 3 option sets with eviction; each abstract history is instantiated with
option-sensitive texts and option sets and run through the four caching parser entry points (tokenizer, word parser,
program parser, arithmetic parser) in ONE long-lived process; every result must equal the result the same lookup gives
as the first lookup of a fresh process."""
import random
from .common import *

TEXTS = ["echo @(a|b) !(c)", "x=a:~/b ~/c", "cat <(ls) |& cat &> f", "function f { :; }; f() ( : )", "echo $'a\\tb' ${x^^} ${x,,}", "[[ a == @(a|b) ]] && echo y", "echo a|b ?(x) +(y)", "time -p true; coproc true",
         "for ((i=0;i<2;i++)); do :; done", "echo {a,b} ~+ $[1+2]", "select x in a; do :; done", "echo `echo x` \"$(echo y)\""]
# texts that the word grammar and the here-document-body grammar (and the other sibling entry points) read differently
WTEXTS = ['"hello" $name\n', "'a' \\$x ~", "~/x $y", 'a\\\\b "q" `c`', "x=~/a:~b", "{a,b}$c'd'", "v:-\"w\" $z", '$(echo "a") \\"', "a{1..3}\"b\"", "n=$'x' \\n"]
ARITH = ["1+2", "x<<2", "a?b:c", "++1", "0x10 + 010 + 2#11", "x = y = 3", "1 +", "(1"]
OPTSETS = [(False, False, False), (True, False, False), (False, True, False), (False, False, True), (True, True, False), (True, False, True)]
APIS = ["tok", "word", "prog"]
WAPIS = ["word", "heredoc", "param", "brace", "asg"]


def drv(histories, timeout=600):
    inp = "".join(json.dumps({"id": i, "ops": ops}) + "\n" for i, ops in enumerate(histories))
    d = tempfile.mkdtemp(prefix="cd-", dir=scratch())
    env = dict(BASE_ENV, HOME=d, TMPDIR=d, PATH="/usr/bin:/bin")
    p = subprocess.run([bin_path("cachedrv")], input=inp.encode(), stdout=subprocess.PIPE, stderr=subprocess.PIPE, env=env, cwd=d, timeout=timeout, preexec_fn=limit_memory)
    shutil.rmtree(d, ignore_errors=True)
    out = {}
    for ln in p.stdout.decode("utf-8", "replace").splitlines():
        try:
            r = json.loads(ln)
            out[r["id"]] = r["res"]
        except Exception:
            pass
    return out, p.returncode, p.stderr.decode("utf-8", "replace")[-400:]


def op(api, text, o):
    return {"api": api, "text": text, "eg": o[0], "posix": o[1], "sh": o[2]}


def run_part(v, tier):
    r1 = run_tlc("MC_Caches", "MC_Caches_ideal.cfg", workers=4, want_lines=("HIST",), timeout=1200)
    if not r1["ok"]:
        raise ToolError("Caches.tla: Transparent does not hold: %s" % r1["violation"])
    for neg in ("MC_Caches_dev.cfg", "MC_Caches_devkind.cfg"):
        r2 = run_tlc("MC_Caches", neg, workers=2, timeout=600)
        if r2["ok"]:
            raise ToolError("Caches.tla self-test: a key without the options / without the entry point should violate Transparent (%s)" % neg)
    hists = [h["h"] for h in r1["lines"]["HIST"]]
    hists.sort(key=json.dumps)
    rnd = random.Random(SEED)
    # reference: every distinct lookup as the first lookup of a fresh process
    distinct = [(a, t, o) for a in APIS for t in TEXTS for o in OPTSETS] + [("arith", t, OPTSETS[0]) for t in ARITH] + [(a, t, o) for a in WAPIS for t in WTEXTS for o in OPTSETS[:3]]

    def ref_one(x):
        out, rc, err = drv([[op(*x)]], timeout=60)
        return x, (out.get(0) or [None])[0]
    ref = {}
    for x, val in pmap(ref_one, distinct):
        if val is None:
            raise ToolError("cachedrv gave no reference for %r" % (x,))
        ref[(x[0], x[1], tuple(x[2]))] = val
    # instantiate the abstract histories: t1..t3 / o1..o3 -> concrete texts / option sets (several instantiations per history)
    n_inst = 2 if tier == "quick" else 10
    concrete = []
    for h in hists:
        for _ in range(n_inst):
            # k1 / k2: two entry points of one family (a family shares texts); t1 / t2, o1 / o2: texts and option sets
            fam = rnd.random()
            if fam < 0.5:
                kmap = dict(zip(("k1", "k2"), rnd.sample(WAPIS, 2)))
                tmap = dict(zip(("t1", "t2"), rnd.sample(WTEXTS, 2)))
                omap = dict(zip(("o1", "o2"), rnd.sample(OPTSETS[:3], 2)))
            elif fam < 0.85:
                kmap = dict(zip(("k1", "k2"), rnd.sample(APIS, 2)))
                tmap = dict(zip(("t1", "t2"), rnd.sample(TEXTS, 2)))
                omap = dict(zip(("o1", "o2"), rnd.sample(OPTSETS, 2)))
            else:
                kmap = {"k1": "arith", "k2": "arith"}
                tmap = dict(zip(("t1", "t2"), rnd.sample(ARITH, 2)))
                omap = {"o1": OPTSETS[0], "o2": OPTSETS[0]}
            ops = [{"api": "flood"} if st == ["flood"] else op(kmap[st[0]], tmap[st[1]], omap[st[2]]) for st in h]
            concrete.append(ops)
    # one long-lived process per chunk: all its histories form one long history
    chunks = [concrete[i::8] for i in range(8)]

    def run_chunk(ch):
        return ch, drv(ch, timeout=1200)
    lookups = 0
    for ch, (out, rc, err) in pmap(run_chunk, chunks, threads=8):
        if rc != 0:
            v.violation("c-crash", {"kind": "cachedrv died", "part": "c", "rc": rc, "stderr": err})
            continue
        for i, ops in enumerate(ch):
            res = out.get(i)
            if res is None:
                v.violation("c-missing:%d" % i, {"kind": "no answer for a history", "part": "c", "ops": ops})
                continue
            for o, got in zip(ops, res):
                if o["api"] == "flood":
                    continue
                lookups += 1
                exp = ref[(o["api"], o["text"], (o["eg"], o["posix"], o["sh"]))]
                if got != exp:
                    v.violation("c:%s|%s|%s" % (o["api"], o["text"], (o["eg"], o["posix"], o["sh"])),
                                {"kind": "a parse result depends on what was parsed before", "part": "c", "lookup": o, "history": ops, "expected_hash": exp, "observed_hash": got})
    return {"states": r1["distinct"], "histories": len(concrete), "lookups": lookups, "maxlen": 4,
            "sample": {"history": concrete[len(concrete) // 2]}}
