\* C18 quick: a fault leaf at every position of every construct-in-construct chain
CONSTANTS
  Depth = 2
  MaxNodes = 9
  Bushy = FALSE
  LeavesFull <- C18_Full
  LeavesLite <- C18_Lite
  Constructs <- C18_Constructs
  CaseShapes <- C18_Cases
INIT Init
NEXT Next
INVARIANT Emit
CHECK_DEADLOCK FALSE
