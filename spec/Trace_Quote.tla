----------------------------- MODULE Trace_Quote -----------------------------
(* Trace validation of a pure function (C13): for every recorded (value, text) produced by the shell's quoting
   (printf %q, ${v@Q}) the independent reader must give the value back: Read(text) = value.        *)
EXTENDS Quote, Json, IOUtils

Rec == ndJsonDeserialize(IOEnv.TRACE)
ChrTbl == Rec[1].chr
VARIABLE l
Init == l = 2
Next == l <= Len(Rec) /\ l' = l + 1
Spec == Init /\ [][Next]_l
Good(r) == LET x == Read(r.text, ChrTbl) IN x.ok /\ x.val = r.v
\* every unreadable record is reported (PrintT is TRUE), so one run lists them all; the driver turns each into a verdict
AllOK == l <= Len(Rec) => (Good(Rec[l]) \/ PrintT(<<"BAD_QUOTE", l>>))
=============================================================================
