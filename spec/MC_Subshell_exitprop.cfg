CONSTANTS Components <- MComponents Mutators <- MMutators CompOf <- MCompOf Contexts <- MContexts ProcessWide = {"umask", "ulimit"} MaxMut = 2 JobWaited <- MJobWaited
DEV = {"ExitPropagates"}
SPECIFICATION Spec
INVARIANTS ParentSurvives
CHECK_DEADLOCK FALSE
