\* C20 replay generation: every history of exactly 4 operations over two sessions
CONSTANTS
  Sessions = {1, 2}
  MaxOps = 4
  Kinds = {"a", "num"}
  WithWrite = TRUE
  Emit = TRUE
SPECIFICATION Spec
INVARIANTS EmitInv
CHECK_DEADLOCK FALSE
