------------------------------- MODULE MC_Env -------------------------------
(* Programs for Env.tla: every sequence of L steps from the alphabet of a profile (function bodies opened by
   enter / tenter, depth <= 3, closed automatically at the end).  The state carries the program, the scope stack and the
   observation after every step; complete programs are printed for replay.                                          *)
EXTENDS Env, Json

CONSTANTS Profile, L

S(op, n, v, w) == [op |-> op, n |-> n, v |-> v, w |-> w]
A == <<"a">>
B == <<"B">>
N5 == <<"5">>
E11 == <<"1", "+", "1">>
Enter == S("enter", "", UNSET, "")
Leave == S("leave", "", UNSET, "")
Writers == {"plain", "arith", "read", "printfv", "for", "defasg", "append", "elem", "getopts", "mapfile"}
Alphabet ==
  CASE Profile = "scope" -> {S("asg", "x", A, "plain"), S("asg", "x", B, "plain"), S("asg", "y", A, "plain"), S("local", "x", A, ""), S("local", "x", UNSET, ""), S("local", "y", B, ""),
                              S("unset", "x", UNSET, ""), S("unset", "y", UNSET, ""), Enter, Leave, S("tenter", "x", B, ""), S("tenter", "y", N5, "")}
    [] Profile = "ro" -> {S("mark", "x", UNSET, "r"), S("mark", "x", N5, "r"), S("unset", "x", UNSET, ""), S("local", "x", A, ""), S("local", "x", UNSET, "r"), Enter, Leave, S("tenter", "x", B, ""),
                           S("mark", "x", A, "x"), S("mark", "x", UNSET, "i")}
                          \cup {S("asg", "x", A, w) : w \in Writers \ {"arith"}} \cup {S("asg", "x", N5, "arith")}
    [] Profile = "attr" -> {S("mark", "x", UNSET, a) : a \in {"i", "u", "l", "x"}} \cup {S("mark", "x", E11, "i"), S("mark", "x", A, "u"), S("mark", "x", B, "l")}
                            \cup {S("asg", "x", v, "plain") : v \in {A, B, N5, E11}} \cup {S("asg", "x", N5, "append"), S("asg", "x", A, "append"), S("asg", "x", B, "elem"), S("asg", "x", N5, "arith"), S("asg", "x", B, "read"),
                                  S("asg", "x", A, "getopts"), S("asg", "x", B, "mapfile"), S("asg", "x", A, "printfv"), S("asg", "x", B, "for"), S("asg", "x", A, "defasg")}
                            \cup {S("local", "x", UNSET, "i"), S("local", "x", A, "u"), Enter, Leave, S("unset", "x", UNSET, "")}
    [] Profile = "tmpro" -> {S("mark", "x", UNSET, "r"), S("mark", "x", N5, "r"), S("tenter", "y", N5, ""), S("tenter", "x", B, ""), S("asg", "x", A, "plain"), S("asg", "x", A, "for"), S("asg", "x", N5, "arith"),
                             S("asg", "x", A, "read"), S("asg", "y", A, "plain"), S("unset", "y", UNSET, ""), S("unset", "x", UNSET, ""), S("local", "y", B, ""), S("mark", "y", UNSET, "x"), Enter, Leave}
    [] Profile = "export" -> {S("mark", "x", UNSET, "x"), S("mark", "x", A, "x"), S("mark", "y", B, "x"), S("asg", "x", B, "plain"), S("asg", "y", A, "plain"), S("unset", "x", UNSET, ""), S("unset", "y", UNSET, ""),
                              S("local", "x", A, ""), S("local", "x", UNSET, "x"), S("local", "y", UNSET, ""), Enter, Leave, S("tenter", "x", N5, ""), S("tenter", "y", A, ""), S("mark", "x", UNSET, "r")}

VARIABLES prog, sc, trace, dead
vars == <<prog, sc, trace, dead>>
Init == prog = <<>> /\ sc = <<Frame("g")>> /\ trace = <<>> /\ dead = FALSE
\* a bare assignment that a readonly variable refuses, inside a function: the error unwinds every function in progress and
\* execution goes on after the top-level command (nothing more of the program is observed but the state at top level)
Aborts(st) == /\ st.op = "asg" /\ st.w \in {"plain", "append", "elem"} /\ Len(sc) > 1
              /\ Get(sc, st.n) # NONE /\ Get(sc, st.n).r
Allowed(st) == CASE st.op \in {"enter", "tenter"} -> Len(sc) < 4
                 [] st.op = "leave" -> Len(sc) > 1
                 [] st.op = "local" -> Len(sc) > 1
                 [] OTHER -> TRUE
Next == /\ Len(prog) < L /\ ~dead
        /\ \E st \in Alphabet : /\ Allowed(st)
                                /\ prog' = Append(prog, st)
                                /\ IF Aborts(st)
                                   THEN /\ sc' = <<sc[1]>> /\ dead' = TRUE /\ trace' = Append(trace, Obs(<<sc[1]>>))
                                   ELSE /\ sc' = Step(sc, st) /\ dead' = FALSE /\ trace' = Append(trace, Obs(Step(sc, st)))
RECURSIVE Closing(_)
Closing(s) == IF Len(s) = 1 THEN <<>> ELSE LET s2 == Step(s, Leave) IN <<Obs(s2)>> \o Closing(s2)
Emit == (Len(prog) < L /\ ~dead) \/ PrintT(<<"PROG", ToJson([prog |-> prog, obs |-> trace, closing |-> Closing(sc), dead |-> dead])>>)
RoOK == \A st \in Alphabet : Allowed(st) => ReadonlyStable(sc, st)
NeutralOK == Len(sc) >= 4 \/ EnterLeaveNeutral(sc)
=============================================================================
