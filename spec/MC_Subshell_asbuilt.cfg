CONSTANTS Components <- MComponents Mutators <- MMutators CompOf <- MCompOf Contexts <- MContexts ProcessWide = {"umask", "ulimit"} MaxMut = 2
DEV = {"ProcessWideShared"}
SPECIFICATION Spec
INVARIANTS OnlyProcessWideLeaks LeakNeedsMutation Emit
CHECK_DEADLOCK FALSE
