"""C08 - glob, bracket and extglob patterns match exactly the strings bash matches (spec/Glob.tla).

TLC evaluates Glob.tla's Match on a completely enumerated (pattern, subject) domain - every pattern of <= L tokens
over a token alphabet x every subject of <= 3 characters - and emits, per pattern, the set of subjects it matches
(with and without nocasematch) and whether the pattern's meaning is defined. Every pattern is then evaluated
against every subject by the real shell in the contexts `case`, `[[ == ]]` and pathname expansion; bash audits
the model on the same script."""
import itertools
from .common import *

PROP = "C08"
CH = {"NL": "\n", "U": "é"}

FAMILIES = {
    # name: (PatToks const, PatLen, SubChars const, SubLen, extglob, nchunks, contexts)
    "plain": ("Q_PatToks", 4, "Q_SubChars", 3, False, 10, ("case", "test", "glob", "pre", "suf")),
    "class": ("C_PatToks", 3, "C_SubChars", 2, False, 7, ("case", "test", "nocase", "pre", "suf")),
    "ext": ("E_PatToks", 5, "E_SubChars", 3, True, 10, ("case", "test", "pre", "suf")),
}
THOROUGH = {
    "plain": ("Q_PatToks", 5, "Q_SubChars", 3, False, 10, ("case", "test", "pre", "suf")),
    "class": ("C_PatToks", 4, "C_SubChars", 3, False, 14, ("case", "test", "nocase", "pre", "suf")),
    "ext": ("E_PatToks", 6, "E_SubChars", 3, True, 10, ("case", "test", "pre", "suf")),
}


def text(tokens):
    return "".join(CH.get(t, t) for t in tokens)


def ansic(s):
    out = "$'"
    for c in s:
        if c == "\n":
            out += "\\n"
        elif c in "\\'":
            out += "\\" + c
        else:
            out += c
    return out + "'"


def model_rows(fam, spec):
    toks, plen, subs, slen, eg, nch, _ = spec
    d = tempfile.mkdtemp(prefix="glob-", dir=scratch())

    def one(k):
        cfg = os.path.join(d, "c%d.cfg" % k)
        with open(cfg, "w") as f:
            f.write("CONSTANTS\n  PatToks <- %s\n  PatLen = %d\n  SubChars <- %s\n  SubLen = %d\n  EG = %s\n  Chunk = %d\n  NChunks = %d\n"
                    "INIT Init\nNEXT Next\nINVARIANT Emit\nCHECK_DEADLOCK FALSE\n" % (toks, plen, subs, slen, "TRUE" if eg else "FALSE", k, nch))
        r = run_tlc("MC_Glob", cfg, workers=1, want_lines=("ROW", "INSANE"), timeout=3000, xmx="3g")
        if not r["ok"] or r["lines"]["INSANE"]:
            raise ToolError("MC_Glob failed (family %s chunk %d): %s %s" % (fam, k, r["violation"], r["lines"]["INSANE"][:2]))
        return r["lines"]["ROW"]
    rows = []
    for part in pmap(one, range(nch), threads=min(nch, NCPU)):
        rows += part
    shutil.rmtree(d, ignore_errors=True)
    rows.sort(key=lambda r: json.dumps(r["p"]))
    return rows


def subjects_of(rows, spec):
    # the subject universe: enumerate like the spec (all sequences up to SubLen over SubChars)
    chars = {"Q_SubChars": ["a", "b", "]", "NL", "U"], "C_SubChars": ["a", "A", "B", "0", ".", " "], "E_SubChars": ["a", "b"]}[spec[2]]
    subs = [()]
    for n in range(1, spec[3] + 1):
        subs += list(itertools.product(chars, repeat=n))
    return [list(s) for s in subs]


def build_script(pats, subs, spec, contexts):
    eg = spec[4]
    L = ["shopt -s extglob" if eg else "shopt -u extglob", "subs=(" + " ".join(ansic(text(s)) for s in subs) + ")",
         "pats=(" + " ".join(ansic(text(p)) for p in pats) + ")"]
    L.append('for pi in "${!pats[@]}"; do p=${pats[pi]}')
    if "case" in contexts:
        L.append('  out=; for si in "${!subs[@]}"; do case ${subs[si]} in $p) out+=" $si";; esac; done; echo "c$pi:$out"')
    if "test" in contexts:
        L.append('  out=; for si in "${!subs[@]}"; do if [[ ${subs[si]} == $p ]]; then out+=" $si"; fi; done; echo "t$pi:$out"')
    if "nocase" in contexts:
        L.append('  shopt -s nocasematch; out=; for si in "${!subs[@]}"; do case ${subs[si]} in $p) out+=" $si";; esac; done; echo "n$pi:$out"; shopt -u nocasematch')
    # the pattern operators of parameter expansion: removing the LONGEST matching prefix / suffix leaves nothing exactly when the pattern
    # matches the whole (non-empty) subject
    if "pre" in contexts:
        L.append('  out=; for si in "${!subs[@]}"; do x=${subs[si]}; if [ -n "$x" ] && [ -z "${x##$p}" ]; then out+=" $si"; fi; done; echo "P$pi:$out"')
    if "suf" in contexts:
        L.append('  out=; for si in "${!subs[@]}"; do x=${subs[si]}; if [ -n "$x" ] && [ -z "${x%%$p}" ]; then out+=" $si"; fi; done; echo "S$pi:$out"')
    L.append("done")
    if "glob" in contexts:
        L.append("mkdir d && cd d || exit 9")
        L.append('for s in "${subs[@]}"; do [ -n "$s" ] && : > "./$s"; done')
        L.append('for s in "${subs[@]}"; do [ -n "$s" ] && [ "${#s}" -le 2 ] && : > "./.$s"; done        # dot-files: hidden unless the pattern component starts with a dot')
        L.append("IFS=")
        L.append('for pi in "${!pats[@]}"; do p=${pats[pi]}; set -- $p; printf "g$pi:"; for f in "$@"; do printf " %s" "${f@Q}"; done; echo; done')
        # the same patterns behind an empty quoted piece and behind a quoted directory part: what is quoted must not change which names a
        # leading dot hides
        L.append('e=; for pi in "${!pats[@]}"; do p=${pats[pi]}; set -- ""$p "$e"$p; printf "h$pi:"; for f in "$@"; do printf " %s" "${f@Q}"; done; echo; done')
        L.append('for pi in "${!pats[@]}"; do p=${pats[pi]}; set -- .$p "."$p "".$p "$e".$p; printf "j$pi:"; for f in "$@"; do printf " %s" "${f@Q}"; done; echo; done')
        L.append('cd .. && for pi in "${!pats[@]}"; do p=${pats[pi]}; set -- "d/"$p "d/".$p d/""$p "d"/.$p; printf "i$pi:"; for f in "$@"; do printf " %s" "${f@Q}"; done; echo; done')
    return "\n".join(L) + "\n"


def parse_out(out):
    res = {}
    for ln in out.splitlines():
        m = re.match(r"^([ctngPShij])(\d+):(.*)$", ln)
        if m:
            res[(m.group(1), int(m.group(2)))] = m.group(3)
    return res


def expected(row, subs, ctx):
    key = "mnc" if ctx == "n" else "m"
    hits = set(json.dumps(s) for s in row[key])
    return [i for i, s in enumerate(subs) if json.dumps(s) in hits and (s or ctx not in ("P", "S"))]


def run(tier):
    v = Verdict(PROP, tier, "model_checking")
    build_harness()
    fams = FAMILIES if tier == "quick" else THOROUGH
    total_pairs = total_pats = defined = 0
    evals = 0
    samples = []
    for fam, spec in fams.items():
        rows = model_rows(fam, spec)
        subs = subjects_of(rows, spec)
        contexts = spec[6]
        total_pats += len(rows)
        total_pairs += len(rows) * len(subs)
        wd = [r for r in rows if r["wd"]]
        defined += len(wd)
        chunks = [wd[i:i + 250] for i in range(0, len(wd), 250)]

        def one(chunk):
            scr = build_script([r["p"] for r in chunk], subs, spec, contexts)
            b = run_script("bash", scr, front="file", timeout=600)
            r = run_script("brush", scr, front="file", timeout=900)
            return chunk, scr, b, r
        for chunk, scr, b, r in pmap(one, chunks):
            if crashed(r) or r["timeout"]:
                v.violation("%s:chunk:%s" % (fam, text(chunk[0]["p"])), {"kind": "crash or hang while matching", "stderr": r["err"][-500:], "script_head": scr[:400]})
                continue
            ob, orr = parse_out(b["out"]), parse_out(r["out"])
            for i, row in enumerate(chunk):
                for ctxname, tag in (("case", "c"), ("test", "t"), ("nocase", "n"), ("pre", "P"), ("suf", "S")):
                    if ctxname not in contexts:
                        continue
                    evals += len(subs)
                    exp = " ".join([""] + [str(x) for x in expected(row, subs, tag)]) if expected(row, subs, tag) else ""
                    gb, gr = ob.get((tag, i)), orr.get((tag, i))
                    if gb != exp:
                        v.audit_miss({"family": fam, "pattern": text(row["p"]), "ctx": ctxname, "model": exp, "bash": gb})
                        continue
                    if gr != exp and known_class(v, fam, ctxname, row):
                        continue
                    if gr != exp:
                        v.violation("%s:%s:%s" % (fam, ctxname, json.dumps(row["p"])),
                                    {"kind": "pattern matches a different set of subjects", "family": fam, "context": ctxname, "pattern": text(row["p"]), "pattern_tokens": row["p"],
                                     "subjects": [text(s) for s in subs], "expected_indices": exp, "observed_indices": gr, "extglob": spec[4]})
                if "glob" in contexts:
                    gb, gr = ob.get(("g", i)), orr.get(("g", i))
                    evals += len(subs)
                    if gb is None:
                        continue
                    # the model's statement: the non-empty matching subjects, sorted; the pattern itself if none
                    hits = sorted(text(s) for s in row["m"] if s and not text(s).startswith("."))
                    if hits:
                        exp_names = hits
                    else:
                        exp_names = None      # literal pattern: compare brush with bash only
                    if exp_names is not None:
                        bnames = gb
                        # names are printed with ${f@Q}; compare brush and bash output textually and bash with the model by count
                        if len(shlex_split(gb)) != len(exp_names):
                            v.audit_miss({"family": fam, "pattern": text(row["p"]), "ctx": "glob", "model": exp_names, "bash": gb})
                            continue
                    if gr != gb and shlex_names(gr) != shlex_names(gb):
                        v.violation("%s:glob:%s" % (fam, json.dumps(row["p"])), {"kind": "pathname expansion differs", "pattern": text(row["p"]), "expected": gb, "observed": gr})
                    for tag, what in (("h", 'behind an empty quoted piece (""$p "$e"$p)'), ("i", 'behind a quoted directory part ("d/"$p "d/".$p d/""$p "d"/.$p)'), ("j", 'after a leading dot (.$p "."$p "".$p "$e".$p), which makes dot-files eligible')):
                        hb, hr = ob.get((tag, i)), orr.get((tag, i))
                        if hb is not None and hr != hb and shlex_names(hr) != shlex_names(hb):
                            v.violation("%s:glob%s:%s" % (fam, tag, json.dumps(row["p"])), {"kind": "pathname expansion differs " + what, "pattern": text(row["p"]), "expected": hb, "observed": hr})
        if len(samples) < 3:
            samples.append({"family": fam, "pattern": text(wd[len(wd) // 2]["p"]), "matches": [text(s) for s in wd[len(wd) // 2]["m"]][:12]})
    if v.audit_disagreements > 0.02 * max(1, defined):
        raise ToolError("model/bash disagreement rate too high: %d of %d patterns" % (v.audit_disagreements, defined))
    return v.finish({
        "states": total_pairs, "transitions": total_pairs, "traces_validated_against_impl": defined,
        "evaluations": evals, "distinct_nontrivial": defined,
        "rule": "every pattern of <= L tokens over the family's token alphabet (plain: a b * ? [ ] ! - \\\\ NL, L=4; bracket classes / case / dot, L=3; extglob "
                "openers | ), L=5) x every subject of <= 3 characters; states = (pattern, subject) pairs decided by Glob.tla's Match inside TLC; a pattern is "
                "non-trivial/judged when WellDefined holds (POSIX-unspecified texts are not judged); evaluations = pattern x subject x context evaluations in brush",
        "patterns": total_pats, "patterns_with_defined_meaning": defined, "exhaustive": True, "samples": samples,
        "contexts": ["case $s in $p)", "[[ $s == $p ]]", "${s##$p} and ${s%%$p} leave nothing", "pathname expansion (plain family)", "nocasematch (class family)"],
    }, assumptions=["bash 5.2.15 is the authority for \"matches\"; a pattern/context counts only if bash reproduces the model's set",
                    "locale C.UTF-8 (code-point order for ranges and sorting)", "pattern delivered as the value of an unquoted expansion"])


def known_class(v, fam, ctxname, row):
    for f in v.findings:
        if f.get("status") != "known":
            continue
        if f["id"] == "F-C08-3" and "!(" in row["p"]:
            v.known(f["id"], f["what"][:110])
            return True
        if f["id"] == "F-C08-4" and ctxname == "nocase" and ("[:upper:]" in row["p"] or "[:lower:]" in row["p"]):
            v.known(f["id"], f["what"][:110])
            return True
    return False


def shlex_split(s):
    import shlex
    try:
        return shlex.split(s.replace("$'", "'"))
    except ValueError:
        return s.split()


def shlex_names(s):
    return sorted(shlex_split(s or ""))


def replay(path):
    with open(path) as f:
        c = json.load(f)
    build_harness()
    subs = c["subjects"]
    scr = "shopt -%s extglob\nsubs=(%s)\np=%s\nout=; for si in \"${!subs[@]}\"; do case ${subs[si]} in $p) out+=\" $si\";; esac; done; echo \"$out\"\n" % (
        "s" if c.get("extglob") else "u", " ".join(ansic(s) for s in subs), ansic(c["pattern"]))
    r = run_script("brush", scr, front="file")
    print("expected", repr(c["expected_indices"]), "observed", repr(r["out"].rstrip("\n")))
    if r["out"].rstrip("\n") != c["expected_indices"]:
        print("VIOLATION property=%s replay=%s" % (PROP, path))
        return 1
    return 0
