\* C20 replay generation: every history of exactly 5 operations in one session (all prefixes included)
CONSTANTS
  Sessions = {1}
  MaxOps = 5
  Kinds = {"a", "pad", "hash", "empty"}
  WithWrite = TRUE
  Emit = TRUE
SPECIFICATION Spec
INVARIANTS EmitInv
CHECK_DEADLOCK FALSE
