------------------------------- MODULE Word64 -------------------------------
(* Two's-complement 64-bit integers for TLC (whose own integers are 32-bit): a word is a sequence of 8 bytes,
   least significant first.  All operations wrap modulo 2^64, as C's intmax_t arithmetic does in bash
   (brush-core/src/arithmetic.rs uses wrapping_* on i64).                                                  *)
EXTENDS Naturals, Sequences

Byte == 0..255
Zero == <<0, 0, 0, 0, 0, 0, 0, 0>>
One == <<1, 0, 0, 0, 0, 0, 0, 0>>
MinusOne == <<255, 255, 255, 255, 255, 255, 255, 255>>
MinInt == <<0, 0, 0, 0, 0, 0, 0, 128>>
MaxInt == <<255, 255, 255, 255, 255, 255, 255, 127>>

FromSmall(n) == [i \in 1..8 |-> IF i > 4 THEN 0 ELSE (n \div (256 ^ (i - 1))) % 256]     \* 0 <= n < 2^31
FromByteAt(b, pos) == [i \in 1..8 |-> IF i = pos THEN b ELSE 0]

RECURSIVE AddC(_, _, _, _)
AddC(a, b, i, carry) == IF i > 8 THEN <<>> ELSE LET s == a[i] + b[i] + carry IN <<s % 256>> \o AddC(a, b, i + 1, s \div 256)
Add(a, b) == AddC(a, b, 1, 0)
Not(a) == [i \in 1..8 |-> 255 - a[i]]
Neg(a) == Add(Not(a), One)
Sub(a, b) == Add(a, Neg(b))
IsNeg(a) == a[8] >= 128
IsZero(a) == a = Zero
Abs(a) == IF IsNeg(a) THEN Neg(a) ELSE a                \* (Abs(MinInt) = MinInt, read as unsigned 2^63)

\* a * k for a byte k, then shifted left by sh bytes, truncated to 8 bytes
RECURSIVE MulByteC(_, _, _, _)
MulByteC(a, k, i, carry) == IF i > 8 THEN <<>> ELSE LET p == a[i] * k + carry IN <<p % 256>> \o MulByteC(a, k, i + 1, p \div 256)
ShlBytes(a, sh) == [i \in 1..8 |-> IF i <= sh THEN 0 ELSE a[i - sh]]
RECURSIVE MulAcc(_, _, _)
MulAcc(a, b, i) == IF i > 8 THEN Zero ELSE Add(IF b[i] = 0 THEN Zero ELSE ShlBytes(MulByteC(a, b[i], 1, 0), i - 1), MulAcc(a, b, i + 1))
Mul(a, b) == MulAcc(a, b, 1)

\* unsigned comparison, most significant byte first
RECURSIVE UltFrom(_, _, _)
UltFrom(a, b, i) == IF i = 0 THEN FALSE ELSE IF a[i] # b[i] THEN a[i] < b[i] ELSE UltFrom(a, b, i - 1)
Ult(a, b) == UltFrom(a, b, 8)
Slt(a, b) == IF IsNeg(a) # IsNeg(b) THEN IsNeg(a) ELSE Ult(a, b)
Sle(a, b) == a = b \/ Slt(a, b)

\* bits, least significant first
Bit(a, n) == (a[(n \div 8) + 1] \div (2 ^ (n % 8))) % 2            \* n in 0..63
FromBits(f(_)) == [i \in 1..8 |-> f(8*(i-1)) + 2*f(8*(i-1)+1) + 4*f(8*(i-1)+2) + 8*f(8*(i-1)+3) + 16*f(8*(i-1)+4) + 32*f(8*(i-1)+5) + 64*f(8*(i-1)+6) + 128*f(8*(i-1)+7)]
And(a, b) == LET f(n) == Bit(a, n) * Bit(b, n) IN FromBits(f)
Or(a, b)  == LET f(n) == IF Bit(a, n) + Bit(b, n) > 0 THEN 1 ELSE 0 IN FromBits(f)
Xor(a, b) == LET f(n) == (Bit(a, n) + Bit(b, n)) % 2 IN FromBits(f)
Shl(a, k) == LET f(n) == IF n < k THEN 0 ELSE Bit(a, n - k) IN FromBits(f)                  \* k in 0..63
Sar(a, k) == LET s == IF IsNeg(a) THEN 1 ELSE 0  f(n) == IF n + k > 63 THEN s ELSE Bit(a, n + k) IN FromBits(f)   \* arithmetic shift right

\* unsigned restoring division: quotient and remainder of a / b (b # 0), bit by bit from the top
RECURSIVE UDivStep(_, _, _, _, _)
UDivStep(a, b, n, q, r) ==
  IF n < 0 THEN <<q, r>>
  ELSE LET r2 == Add(Add(r, r), FromSmall(Bit(a, n)))           \* r < b <= 2^64 - 1, 2r + 1 may overflow only when b > 2^63: handled by the carry test below
           over == Bit(r, 63) = 1                                  \* 2r overflowed: certainly >= b
       IN IF over \/ ~Ult(r2, b) THEN UDivStep(a, b, n - 1, Add(q, Shl(One, n)), Sub(r2, b))
          ELSE UDivStep(a, b, n - 1, q, r2)
UDivMod(a, b) == UDivStep(a, b, 63, Zero, Zero)
\* C signed division truncating toward zero; the one overflowing case MIN / -1 gives MIN remainder 0 (as bash special-cases)
SDiv(a, b) == LET qr == UDivMod(Abs(a), Abs(b)) IN IF IsNeg(a) # IsNeg(b) THEN Neg(qr[1]) ELSE qr[1]
SMod(a, b) == LET qr == UDivMod(Abs(a), Abs(b)) IN IF IsNeg(a) THEN Neg(qr[2]) ELSE qr[2]

\* a ** e by squaring (e >= 0 as a signed word)
RECURSIVE PowStep(_, _, _, _)
PowStep(base, e, n, acc) == IF n > 63 THEN acc ELSE PowStep(Mul(base, base), e, n + 1, IF Bit(e, n) = 1 THEN Mul(acc, base) ELSE acc)
Pow(a, e) == PowStep(a, e, 0, One)

\* digits (values, most significant first) in a base <= 64, wrapping
RECURSIVE FromDigitsAcc(_, _, _)
FromDigitsAcc(base, ds, acc) == IF ds = <<>> THEN acc ELSE FromDigitsAcc(base, Tail(ds), Add(Mul(acc, FromSmall(base)), FromSmall(ds[1])))
FromDigits(base, ds) == FromDigitsAcc(base, ds, Zero)

\* decimal rendering of the signed value: sequence of digit values, sign separately
RECURSIVE UDigits(_)
UDigits(a) == IF IsZero(a) THEN <<>> ELSE LET qr == UDivMod(a, FromSmall(10)) IN UDigits(qr[1]) \o <<qr[2][1]>>
ToDec(a) == [neg |-> IsNeg(a), digits |-> IF IsZero(a) THEN <<0>> ELSE UDigits(Abs(a))]
SmallOf(a) == a[1] + 256 * a[2] + 65536 * a[3]          \* for values known to be < 2^24
=============================================================================
