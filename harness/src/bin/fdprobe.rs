//! `fdprobe TAG`: the probe command of the C10 check.
//! 1. inventories descriptors 0..=9 (open? access mode) before touching anything,
//! 2. reads everything from descriptor 0 if it is open for reading,
//! 3. writes `TAG<fd>` to every descriptor 1..=9 that is open for writing, in ascending order,
//! 4. appends one report line `TAG fds=0r,1w,.. inp=<hex>` to the file named by $FDREPORT.
use std::io::Write;

fn main() {
    let tag = std::env::args().nth(1).unwrap_or_else(|| "?".to_owned());
    let mut inv: Vec<(i32, bool, bool)> = vec![];
    for fd in 0..=9 {
        // SAFETY: fcntl(F_GETFL) only queries the descriptor.
        let fl = unsafe { libc::fcntl(fd, libc::F_GETFL) };
        if fl < 0 {
            continue;
        }
        // The Rust runtime opens /dev/null on descriptors 0-2 that were closed when the process started: such a
        // descriptor was closed as far as the shell is concerned (no redirection of the check opens /dev/null).
        if fd <= 2 && std::fs::read_link(format!("/proc/self/fd/{fd}")).is_ok_and(|p| p == std::path::Path::new("/dev/null")) {
            continue;
        }
        let acc = fl & libc::O_ACCMODE;
        inv.push((fd, acc == libc::O_RDONLY || acc == libc::O_RDWR, acc == libc::O_WRONLY || acc == libc::O_RDWR));
    }
    let mut inp: Vec<u8> = vec![];
    if inv.iter().any(|&(fd, r, _)| fd == 0 && r) {
        let mut buf = [0u8; 4096];
        loop {
            // SAFETY: reading into a local buffer of the stated size.
            let n = unsafe { libc::read(0, buf.as_mut_ptr().cast(), buf.len()) };
            if n <= 0 {
                break;
            }
            inp.extend_from_slice(&buf[..n as usize]);
            if inp.len() > 1 << 20 {
                break;
            }
        }
    }
    for &(fd, _, w) in &inv {
        if fd >= 1 && w {
            let s = format!("{tag}{fd}");
            // SAFETY: writing a local buffer of the stated size.
            let _ = unsafe { libc::write(fd, s.as_ptr().cast(), s.len()) };
        }
    }
    if let Some(path) = std::env::var_os("FDREPORT") {
        if let Ok(mut f) = std::fs::OpenOptions::new().create(true).append(true).open(path) {
            let fds: Vec<String> = inv
                .iter()
                .map(|&(fd, r, w)| format!("{fd}{}{}", if r { "r" } else { "" }, if w { "w" } else { "" }))
                .collect();
            let hex: String = inp.iter().map(|b| format!("{b:02x}")).collect();
            let _ = writeln!(f, "{tag} fds={} inp={hex}", fds.join(","));
        }
    }
}
