\* C01 quick: every text of <= 3 atoms over the whole atom alphabet the reader can reach (each is also a cut point)
CONSTANTS
  MaxAtoms = 3
  MaxStack = 3
  AtomNames <- AllNames
SPECIFICATION Spec
INVARIANTS StackBounded QuotesAreLeaves EmitInv
CHECK_DEADLOCK FALSE
