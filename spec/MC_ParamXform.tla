---------------------------- MODULE MC_ParamXform ----------------------------
(* Parameter transformations and the binding-sensitive corners of parameter expansion (C06, third part):
   brush-core/src/expansion.rs (apply_transform ..., nounset handling), brush-core/src/escape.rs / brush-parser ANSI-C decoding,
   brush-core/src/variables.rs (attribute letters, declaration text).

   A value is a sequence of character CODES (so that control characters and escapes can be stated exactly).
     Q     "${v@Q}"  the value quoted so that the shell reads it back: '...' (a quote as '\''), or $'...' when it holds a control character
     E     "${v@E}"  backslash escapes of the value decoded as $'...' does: \n \a \\ \' \xH[H] \O[O[O]] ; unknown escapes stay; NUL ends the result
     a / A "${v@a}" attribute letters, "${v@A}" a declaration that recreates the variable, for every attribute set and binding
     assoc associative arrays: count, keys, values, element with default / alternative, element length (keys and values in any order)
     nounset  which expansions of unset things are errors under `set -u` and which are not
     aroff    offsets and lengths given as arithmetic expressions                                                           *)
EXTENDS Integers, Sequences, FiniteSets, TLC, Json

CONSTANTS Fam, Chunk, NChunks, QL, EL      \* QL / EL: longest value for the Q / E families

SQ == 39  BS == 92  NLc == 10  TABc == 9
RECURSIVE Flat(_)
Flat(ss) == IF ss = <<>> THEN <<>> ELSE Head(ss) \o Flat(Tail(ss))
MapS(v, f(_)) == [i \in 1..Len(v) |-> f(v[i])]
SeqsUpTo(S, n) == UNION {[1..k -> S] : k \in 0..n}

\* ------------------------------------------------------------------ @Q
IsCtl(c) == c < 32 \/ c = 127
Oct3(c) == <<48 + (c \div 64), 48 + ((c \div 8) % 8), 48 + (c % 8)>>
QPlain(c) == IF c = SQ THEN <<SQ, BS, SQ, SQ>> ELSE <<c>>
QAnsi(c) == CASE c = NLc -> <<BS, 110>> [] c = TABc -> <<BS, 116>> [] c = SQ -> <<BS, SQ>> [] c = BS -> <<BS, BS>>
              [] c = 7 -> <<BS, 97>> [] c = 27 -> <<BS, 69>> [] IsCtl(c) -> <<BS>> \o Oct3(c) [] OTHER -> <<c>>
Quote(v) == IF v = <<SQ>> THEN <<BS, SQ>>                        \* a lone quote is written \'
            ELSE IF \E i \in 1..Len(v) : IsCtl(v[i]) THEN <<36, SQ>> \o Flat(MapS(v, QAnsi)) \o <<SQ>>
            ELSE <<SQ>> \o Flat(MapS(v, QPlain)) \o <<SQ>>
QAlpha == {97, 32, 42, SQ, BS, NLc, TABc, 233, 1}
\* reading a quoted text back (the inverse, for the round-trip sanity below): only the two shapes Quote produces
RECURSIVE UnPlain(_, _)
UnPlain(q, i) == IF i > Len(q) \/ (q[i] = SQ /\ i = Len(q)) THEN <<>>
                 ELSE IF q[i] = SQ THEN <<SQ>> \o UnPlain(q, i + 4) ELSE <<q[i]>> \o UnPlain(q, i + 1)
QuoteRoundTrip(v) == (v # <<SQ>> /\ ~\E i \in 1..Len(v) : IsCtl(v[i])) => UnPlain(Quote(v), 2) = v

\* ------------------------------------------------------------------ @E
HexVal(c) == CASE c \in 48..57 -> c - 48 [] c \in 97..102 -> c - 87 [] c \in 65..70 -> c - 55 [] OTHER -> 99
IsOct(c) == c \in 48..55
RECURSIVE Dec(_, _)
Dec(s, i) ==
  IF i > Len(s) THEN <<>>
  ELSE IF s[i] # BS THEN <<s[i]>> \o Dec(s, i + 1)
  ELSE IF i = Len(s) THEN <<BS>>
  ELSE LET d == s[i + 1] IN
    CASE d = 110 -> <<NLc>> \o Dec(s, i + 2)
      [] d = 97 -> <<7>> \o Dec(s, i + 2)
      [] d = SQ -> <<SQ>> \o Dec(s, i + 2)
      [] d = BS -> <<BS>> \o Dec(s, i + 2)
      [] d = 120 -> LET h1 == IF i + 2 <= Len(s) THEN HexVal(s[i + 2]) ELSE 99
                        h2 == IF i + 3 <= Len(s) THEN HexVal(s[i + 3]) ELSE 99 IN
                    IF h1 = 99 THEN <<BS, 120>> \o Dec(s, i + 2)
                    ELSE IF h2 = 99 THEN <<h1>> \o Dec(s, i + 3)
                    ELSE <<h1 * 16 + h2>> \o Dec(s, i + 4)
      [] IsOct(d) -> LET o2 == i + 2 <= Len(s) /\ IsOct(s[i + 2])
                         o3 == o2 /\ i + 3 <= Len(s) /\ IsOct(s[i + 3]) IN
                     IF o3 THEN <<((d - 48) * 64 + (s[i + 2] - 48) * 8 + (s[i + 3] - 48)) % 256>> \o Dec(s, i + 4)
                     ELSE IF o2 THEN <<(d - 48) * 8 + (s[i + 2] - 48)>> \o Dec(s, i + 3)
                     ELSE <<d - 48>> \o Dec(s, i + 2)
      [] OTHER -> <<BS, d>> \o Dec(s, i + 2)
RECURSIVE UpToNul(_)
UpToNul(s) == IF s = <<>> \/ Head(s) = 0 THEN <<>> ELSE <<Head(s)>> \o UpToNul(Tail(s))
Decode(s) == UpToNul(Dec(s, 1))
EAlpha == {BS, 120, 110, 48, 49, 52, 97, SQ, 122}
\* a text without a backslash is its own decoding
DecodeSane(s) == (~\E i \in 1..Len(s) : s[i] = BS) => Decode(s) = s

\* ------------------------------------------------------------------ @a / @A
\* attribute sets: any of i r x, and at most one of l u
AttrSets == {S \cup T : S \in SUBSET {"i", "r", "x"}, T \in {{}, {"l"}, {"u"}}}
Order == <<"a", "A", "i", "n", "r", "t", "x", "l", "u">>
Letters(S) == SelectSeq(Order, LAMBDA c : c \in S)
UpC(c) == IF c \in 97..122 THEN c - 32 ELSE c
LoC(c) == IF c \in 65..90 THEN c + 32 ELSE c
\* values assigned: text, and what an integer variable makes of it
AVals == { [t |-> <<65, 98>>, n |-> <<48>>], [t |-> <<53>>, n |-> <<53>>], [t |-> <<49, 43, 50>>, n |-> <<51>>], [t |-> <<>>, n |-> <<48>>] }
Stored(S, av) == LET v0 == IF "i" \in S THEN av.n ELSE av.t IN
                 IF "l" \in S THEN MapS(v0, LoC) ELSE IF "u" \in S THEN MapS(v0, UpC) ELSE v0
Str(s) == s     \* (documentation: sequences of codes)
Dash == 45  SP == 32
DeclText(S, kind, val) ==       \* kind: "set" | "decl" (declared, no value) | "unset"
  LET ls == Letters(S) IN
  CASE kind = "unset" -> <<>>
    [] kind = "decl" -> IF S = {} THEN <<>> ELSE <<"declare -">> \o ls \o <<" v">>
    [] kind = "set" -> (IF S = {} THEN <<>> ELSE <<"declare -">> \o ls \o <<" ">>) \o <<"v=">> \o <<Quote(val)>>

\* ------------------------------------------------------------------ nounset
\* things: u unset scalar, s set scalar, e empty scalar, a = (x y), ea = (), ua unset array name; positionals: none or one
NuForms == {"$u", "${u}", "${u-w}", "${u:-w}", "${u+w}", "${u:+w}", "${#u}", "${u:1}", "${u#p}", "${u^^}", "${u@Q}", "${u/p/r}", "${!u}",
            "$e", "${#e}", "${e:1}", "${e:-w}",
            "${a[5]}", "${a[5]-w}", "${#a[5]}", "${a[1]}", "${a[@]}", "${a[*]}", "${#a[@]}", "${a[@]:5}",
            "${ea[@]}", "${ea[*]}", "${#ea[@]}", "${ea[0]}", "${ea[@]-w}",
            "${ua[@]}", "${ua[*]}", "${#ua[@]}", "${ua[0]}", "${ua[@]-w}",
            "$@", "$*", "$#", "${@}", "${#@}", "${@:1}", "$1", "${1}", "${1-w}", "${#1}", "$9", "${*-w}" }
\* [st, val]: val = list of words (texts as strings here; these are fixed small results)
NuOK(ws) == [st |-> "ok", val |-> ws]
NuErr == [st |-> "err", val |-> <<>>]
Nounset(f, npos) ==
  CASE f \in {"$u", "${u}", "${#u}", "${u:1}", "${u#p}", "${u^^}", "${u/p/r}", "${a[5]}", "${ea[0]}", "${ua[0]}", "$9", "${#ua[@]}"} -> NuErr
    [] f = "${u@Q}" -> NuErr
    [] f = "${!u}" -> NuErr
    [] f \in {"${u-w}", "${u:-w}", "${a[5]-w}", "${ea[@]-w}", "${ua[@]-w}"} -> NuOK(<<"w">>)
    [] f \in {"${u+w}", "${u:+w}", "$e", "${e:1}"} -> NuOK(<<"">>)
    [] f \in {"${#e}", "${#a[5]}"} -> NuOK(<<"0">>)          \* the length of an unset ELEMENT is 0, not an error (bash)
    [] f = "${e:-w}" -> NuOK(<<"w">>)
    [] f = "${a[1]}" -> NuOK(<<"y">>)
    [] f \in {"${a[@]}"} -> NuOK(<<"x", "y">>)
    [] f = "${a[*]}" -> NuOK(<<"x y">>)
    [] f = "${#a[@]}" -> NuOK(<<"2">>)
    [] f = "${a[@]:5}" -> NuOK(<<>>)
    [] f \in {"${ea[@]}", "${ua[@]}"} -> NuOK(<<>>)
    [] f \in {"${ea[*]}", "${ua[*]}"} -> NuOK(<<"">>)
    [] f = "${#ea[@]}" -> NuOK(<<"0">>)                       \* ... while the count of an unset ARRAY is an error
    [] f \in {"$@", "${@}", "${@:1}"} -> NuOK(IF npos = 0 THEN <<>> ELSE <<"p">>)
    [] f = "$*" -> NuOK(IF npos = 0 THEN <<"">> ELSE <<"p">>)
    [] f \in {"$#", "${#@}"} -> NuOK(<<IF npos = 0 THEN "0" ELSE "1">>)
    [] f \in {"$1", "${1}"} -> IF npos = 0 THEN NuErr ELSE NuOK(<<"p">>)
    [] f = "${1-w}" -> NuOK(<<IF npos = 0 THEN "w" ELSE "p">>)
    [] f = "${#1}" -> IF npos = 0 THEN NuErr ELSE NuOK(<<"1">>)
    [] f = "${*-w}" -> NuOK(<<IF npos = 0 THEN "w" ELSE "p">>)

\* ------------------------------------------------------------------ arithmetic offsets: v = abcdef (codes 97..102), n=2, z unset
OffExprs == { [e |-> "1+1", x |-> 2], [e |-> "n-1", x |-> 1], [e |-> " -2", x |-> -2], [e |-> "(-3)", x |-> -3], [e |-> "z", x |-> 0], [e |-> "n*2", x |-> 4],
              [e |-> "n>1", x |-> 1], [e |-> "9-n", x |-> 7], [e |-> "0-n*4", x |-> -8], [e |-> "n,1", x |-> 1], [e |-> "n==2&&3", x |-> 1], [e |-> "6", x |-> 6] }
LenExprs == { [e |-> "n", x |-> 2], [e |-> "n-2", x |-> 0], [e |-> "0-1", x |-> -1], [e |-> "n*n", x |-> 4], [e |-> "z", x |-> 0], [e |-> "0-n-n-n", x |-> -6] }
V6 == <<97, 98, 99, 100, 101, 102>>
Sub(v, off, hasLen, len) ==
  LET n == Len(v)  s == IF off < 0 THEN n + off ELSE off IN
  IF s < 0 \/ s > n THEN [st |-> "ok", val |-> <<>>]
  ELSE IF ~hasLen THEN [st |-> "ok", val |-> SubSeq(v, s + 1, n)]
  ELSE IF len >= 0 THEN [st |-> "ok", val |-> SubSeq(v, s + 1, IF s + len > n THEN n ELSE s + len)]
  ELSE LET e == n + len IN IF e < s THEN [st |-> "err", val |-> <<>>] ELSE [st |-> "ok", val |-> SubSeq(v, s + 1, e)]

\* ------------------------------------------------------------------ associative arrays
Keys == {<<107>>, <<107, 32, 50>>, <<42>>}                 \* k / "k 2" / *
AVs == {<<97>>, <<>>, <<97, 32, 98>>}
Maps == {m \in [Keys -> AVs \cup {<<-1>>}] : TRUE}            \* <<-1>> : key absent
Present(m) == {k \in Keys : m[k] # <<-1>>}
RECURSIVE SetSeq(_)
SetSeq(S) == IF S = {} THEN <<>> ELSE LET x == CHOOSE y \in S : TRUE IN <<x>> \o SetSeq(S \ {x})
Num(n) == <<48 + n>>
Wc == <<119>>
\* result: list of words; unordered = TRUE when bash's order is the hash table's
AssocOp(m, o, k) ==
  LET ks == SetSeq(Present(m))  has == k \in Present(m) IN
  CASE o = "count" -> [w |-> <<Num(Len(ks))>>, unordered |-> FALSE]
    [] o = "keys" -> [w |-> ks, unordered |-> TRUE]
    [] o = "vals" -> [w |-> [i \in 1..Len(ks) |-> m[ks[i]]], unordered |-> TRUE]
    [] o = "valsUp" -> [w |-> [i \in 1..Len(ks) |-> MapS(m[ks[i]], UpC)], unordered |-> TRUE]
    [] o = "get" -> [w |-> <<IF has THEN m[k] ELSE <<>> >>, unordered |-> FALSE]
    [] o = "getdflt" -> [w |-> <<IF has THEN m[k] ELSE Wc>>, unordered |-> FALSE]
    [] o = "getdfltC" -> [w |-> <<IF has /\ m[k] # <<>> THEN m[k] ELSE Wc>>, unordered |-> FALSE]
    [] o = "getalt" -> [w |-> <<IF has THEN Wc ELSE <<>> >>, unordered |-> FALSE]
    [] o = "getlen" -> [w |-> <<Num(IF has THEN Len(m[k]) ELSE 0)>>, unordered |-> FALSE]
MapRec(m) == LET ks == SetSeq(Present(m)) IN [i \in 1..Len(ks) |-> [k |-> ks[i], v |-> m[ks[i]]]]

VARIABLE done
Init == done = FALSE
Next == done' = TRUE
Row(r) == PrintT(<<"ROW", ToJson(r)>>)
Pick(n) == n % NChunks = Chunk
Emit == done \/
  CASE Fam = "Q" -> \A v \in SeqsUpTo(QAlpha, QL) : Pick(Len(v) + (IF v = <<>> THEN 0 ELSE v[1])) =>
                       /\ Assert(QuoteRoundTrip(v), <<"quote round trip", v>>)
                       /\ Row([fam |-> "Q", v |-> v, val |-> Quote(v)])
    [] Fam = "E" -> \A s \in SeqsUpTo(EAlpha, EL) : Pick(Len(s) + (IF s = <<>> THEN 0 ELSE s[Len(s)])) =>
                       /\ Assert(DecodeSane(s), <<"decode", s>>)
                       /\ Row([fam |-> "E", v |-> s, val |-> Decode(s)])
    [] Fam = "attr" -> Chunk # 0 \/
                       /\ \A S \in AttrSets, av \in AVals : Row([fam |-> "attr", kind |-> "set", attrs |-> Letters(S), t |-> av.t, a |-> Letters(S), A |-> DeclText(S, "set", Stored(S, av)), stored |-> Stored(S, av)])
                       /\ \A S \in AttrSets, k \in {"decl", "unset"} : Row([fam |-> "attr", kind |-> k, attrs |-> Letters(S), t |-> <<>>, a |-> IF k = "decl" THEN Letters(S) ELSE <<>>, A |-> DeclText(S, k, <<>>), stored |-> <<>>])
    [] Fam = "nounset" -> Chunk # 0 \/ \A f \in NuForms, np \in {0, 1} : LET r == Nounset(f, np) IN Row([fam |-> "nounset", f |-> f, np |-> np, st |-> r.st, val |-> r.val])
    [] Fam = "aroff" -> Chunk # 0 \/
                       /\ \A o \in OffExprs : LET r == Sub(V6, o.x, FALSE, 0) IN Row([fam |-> "aroff", o |-> o.e, l |-> "-", st |-> r.st, val |-> r.val])
                       /\ \A o \in OffExprs, l \in LenExprs : LET r == Sub(V6, o.x, TRUE, l.x) IN Row([fam |-> "aroff", o |-> o.e, l |-> l.e, st |-> r.st, val |-> r.val])
    [] Fam = "assoc" -> Chunk # 0 \/ \A m \in Maps : Cardinality(Present(m)) <= 2 =>
                       /\ \A o \in {"count", "keys", "vals", "valsUp"} : LET r == AssocOp(m, o, <<>>) IN Row([fam |-> "assoc", m |-> MapRec(m), o |-> o, k |-> <<>>, val |-> r.w, unordered |-> r.unordered])
                       /\ \A o \in {"get", "getdflt", "getdfltC", "getalt", "getlen"}, k \in Keys : LET r == AssocOp(m, o, k) IN Row([fam |-> "assoc", m |-> MapRec(m), o |-> o, k |-> k, val |-> r.w, unordered |-> r.unordered])
=============================================================================
