"""C05 - unquoted words expand to bash's argument lists (spec/WordExp.tla, MC_WordExp.tla family c05)."""
import random
from .common import *
from . import wordexp as W

PROP = "C05"


def judge(v, pool, rows, words_of, fam):
    """rows grouped per environment; bash audits the model, brush is judged on the audited rows"""
    groups = {}
    for row in rows:
        groups.setdefault((tuple(row["c"]), json.dumps(row["x"])), []).append(row)
    jobs = []
    for (c, xj), g in sorted(groups.items()):
        g.sort(key=lambda r: r["w"])
        for k in range(0, len(g), 700):
            jobs.append((c, g[k:k + 700]))

    def one(job):
        c, g = job
        xval = W.text(g[0]["x"])
        srcs, asg = [], []
        for i, row in enumerate(g):
            srcs.append((i, W.render_word(words_of(row), alt=(sum(row["w"]) + sum(c)) % 2 == 1)))
            asg.append(row["asg"] != ["-"])
        b = W.run_rows("bash", pool, c, xval, srcs, asg)
        r = W.run_rows("brush", pool, c, xval, srcs, asg)
        return job, srcs, b, r
    evals = nontrivial = 0
    for (c, g), srcs, b, r in pmap(one, jobs):
        for i, row in enumerate(g):
            evals += 1
            def groups(out, asg):
                return [[W.text(f) for f in out]] + ([[W.text(asg)]] if asg != ["-"] else [])
            exp = groups(row["out"], row["asg"])
            built = exp if row["bout"] == ["="] else groups(row["bout"], row["basg"])
            if len(row["out"]) != 1 or W.text(row["out"][0]) != srcs[i][1]:
                nontrivial += 1
            ctx = {"word": srcs[i][1], "x": W.text(row["x"]), "ifs": pool["ifs"][c[0] - 1], "dir": [W.text(n) for n in pool["dirs"][c[1] - 1]], "params": c[2] - 1}
            if not row["def"] or b.get(i) != exp:
                v.audit_miss(dict(ctx, model=exp, bash=b.get(i) if not isinstance(b.get(i), tuple) else "died"))
                continue
            got = r.get(i)
            if got == exp:
                continue
            died = isinstance(got, tuple)
            # as built: every group is either the ideal one or the one predicted with the known deviations switched on
            if not died and built != exp and len(got) == len(exp) and all(g in (e, bb) for g, e, bb in zip(got, exp, built)):
                fnd = [v.known_dev(d) for d in row["attr"]]
                if row["attr"] and all(fnd):
                    for f in fnd:
                        v.known(f["id"], f["what"][:110])
                    continue
            v.violation("%s|%s|%s" % (srcs[i][1], ctx["x"], c), dict(ctx, kind="shell stopped on the word" if died else "argument list differs", expected=exp, observed=got[1] if died else got,
                                                                   as_built_prediction=built if built != exp else None, deviations=row["attr"], c=list(c), fam=fam, w=row["w"]))
    return evals, nontrivial


def run(tier):
    v = Verdict(PROP, tier, "model_checking")
    build_harness()
    pool, rows, states = W.model("c05", 2, 0)
    rnd = random.Random(SEED)
    envs = sorted({(tuple(r["c"])) for r in rows})
    if tier != "quick":
        # every word of <= 2 pieces in 200 environments, plus every 64th three-piece word (the full products do not finish in an hour)
        keep = set(rnd.sample(envs, min(len(envs), 200)))
        rows = [r for r in rows if tuple(r["c"]) in keep]
        stride = 64
        pool, rows3, st3 = W.model("c05", 3, 0, stride=stride, phases=[SEED % stride])
        rows3 = [r for r in rows3 if len(r["w"]) == 3 and tuple(r["c"]) in keep]
        rows += rows3
        states += st3
    else:
        # every single-piece and two-piece word; environments thinned deterministically
        keep = set(rnd.sample(envs, 60))
        rows = [r for r in rows if tuple(r["c"]) in keep]
    P = pool["pool"]
    evals, nontrivial = judge(v, pool, rows, lambda row: [P[i - 1] for i in row["w"]], "c05")
    from . import c05b
    seq_evals = c05b.run_part(v, tier)
    evals += seq_evals
    nontrivial += seq_evals
    if v.audit_disagreements > 0.03 * max(1, evals):
        raise ToolError("model/bash disagreement rate too high: %d of %d" % (v.audit_disagreements, evals))
    return v.finish({
        "states": states, "transitions": len(rows), "traces_validated_against_impl": evals, "evaluations": evals, "distinct_nontrivial": nontrivial,
        "rule": "words = every sequence of <= %d pieces from the %d-piece pool of MC_WordExp.tla (literals with glob characters, single/double quotes, escapes, $x of five kinds, $@ $* "
                "quoted and not, array expansions, command and arithmetic substitution, ${v:-w} ${v:+w} with nested words, tilde, four brace forms); environments = IFS in {unset, default, "
                "space, newline, empty} x directory in {empty, {a ab b .h 'a b'}} x 4 positional lists x 6 values of x%s; each (word, environment) is one evaluation of Expand in TLC, "
                "one bash run (audit) and one brush run; non-trivial = the argument list is not just the word's own text" % (3 if tier != "quick" else 2, len(P), " (60 environments sampled)" if tier == "quick" else " (200 environments sampled; three-piece words: every 64th)"),
        "exhaustive": False, "pool": len(P),
        "samples": [{"word": W.render_word([P[i - 1] for i in r0["w"]]), "x": W.text(r0["x"]), "out": [W.text(f) for f in r0["out"]]} for r0 in rows[:: max(1, len(rows) // 3)][:3]],
    }, assumptions=["bash 5.2.15 is the reference; a (word, environment) pair counts only if bash reproduces the model's argument list",
                    "patterns whose meaning POSIX leaves undefined (Glob.WellDefined false) are not judged", "locale C.UTF-8"])


def replay(path):
    with open(path) as f:
        c = json.load(f)
    build_harness()
    pool, rows, _ = W.model("c05", 1, 0)
    P = pool["pool"]
    src = c["word"]
    r = W.run_rows("brush", pool, c["c"][:3] + [1], c["x"], [(0, src)], [len(c["expected"]) == 2])
    print("expected", c["expected"], "observed", r.get(0))
    if r.get(0) != c["expected"]:
        print("VIOLATION property=%s replay=%s" % (PROP, path))
        return 1
    return 0
