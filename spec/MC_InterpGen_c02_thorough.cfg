\* C02 thorough: chains of three constructs, full leaf set in the innermost focus hole
CONSTANTS
  Depth = 3
  MaxNodes = 10
  Bushy = FALSE
  LeavesFull <- C02_Full
  LeavesLite <- C02_Lite1
  Constructs <- C02_Constructs3
  CaseShapes <- C02_Cases3
INIT Init
NEXT Next
INVARIANT Emit
CHECK_DEADLOCK FALSE
