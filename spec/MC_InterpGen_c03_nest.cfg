\* C03 nesting: chains of three constructs (exempt context > boundary > list) with one failing leaf
CONSTANTS
  Depth = 3
  MaxNodes = 9
  Bushy = FALSE
  LeavesFull <- C03N_Full
  LeavesLite <- C03N_Lite
  Constructs <- C03N_Constructs
  CaseShapes <- C03N_Cases
INIT Init
NEXT Next
INVARIANT Emit
CHECK_DEADLOCK FALSE
