\* C18: every dispatch path and fault point, nested to depth 4, keeps the stacks balanced
CONSTANTS
  MaxDepth = 4
SPECIFICATION Spec
INVARIANTS NoLeak PopsMatch TypeOK
CHECK_DEADLOCK FALSE
