"""C01 - no input crashes the shell (placeholder for the fragment alphabet; the check is completed below)."""
FRAGMENTS = ["echo ", "a", " ", "'", '"', "$", "$(", ")", "${", "}", "$((", "))", "`", "\\", "\n", ";", "&&", "||", "|", "&", "<<E\n", "E\n", "<", ">", ">>", "2>&1",
             "if ", "then ", "fi", "for i in ", "do ", "done", "case x in ", "esac", "{ ", "(", "é", "🚀", "#", "*", "?", "[", "]", "~", "{a,b}", "{1..3}", "x=", "!",
             "[[ ", " ]]", "function f ", "() ", "$'", "\\x", "-", "=", "0", "9223372036854775807", "$@", "${x:-", "${#x}", "<(", "time ", "coproc ", "select "]
