\* C02 simulation: bushy trees to depth 4 (used with -simulate)
CONSTANTS
  Depth = 4
  MaxNodes = 16
  Bushy = TRUE
  LeavesFull <- C02_Full
  LeavesLite <- C02_Lite
  Constructs <- C02_Constructs
  CaseShapes <- C02_Cases
INIT Init
NEXT Next
INVARIANT Emit
CHECK_DEADLOCK FALSE
