CONSTANTS Components <- MComponents Mutators <- MMutators CompOf <- MCompOf Contexts <- MContexts ProcessWide = {"umask", "ulimit"} MaxMut = 2
DEV = {}
SPECIFICATION Spec
INVARIANTS Isolation LeakNeedsMutation Emit
CHECK_DEADLOCK FALSE
