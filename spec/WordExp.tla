------------------------------ MODULE WordExp ------------------------------
(* Word expansion (C04, C05): brush-core/src/expansion.rs (expand_word, coalesce_expansions,
   process_double_quoted_pieces, split_fields, expand_pathnames), braceexpansion.rs, patterns.rs -
   the order and rules of POSIX 2.6 / bash.

   A word is a sequence of PIECES [k, x, y]:
     lit x        unquoted literal text (glob characters active, never field-split)
     sq x         '...'            esc x    \c            dq y    "..." with inner pieces y (lit / var / at / star / cs / ar)
     var x        $x  (x = variable name)            at  $@      star  $*
     arr x        ${x[@]}            arrs x   ${x[*]}
     cs x         $(printf '%s\n\n' "$x"): the value of x and two newlines (trailing newlines are removed by the substitution)
     ar x         $((...)) whose value is the digits x
     def x y      ${x:-y}           alt x y  ${x:+y}      (y = a word: sequence of pieces, one level)
     tilde        ~ at the start of the word
     brace y      {a,b,...}  (y = sequence of alternatives, each a piece sequence)
   An environment: [vars: name -> value | <<"UNSET">>, arrs: name -> Seq(value), params: Seq(value), ifs: Seq(char) | <<"UNSET">>,
                    home: value, dir: Seq(name)]   (values and names are sequences of characters)

   Stages, as a pipeline over FIELDS = sequences of marked characters [c, q, s]
   (q = quoted: exempt from splitting and globbing; s = came from an unquoted expansion: splittable):
     Brace  ->  Pieces (tilde, parameter, command, arithmetic; left to right)  ->  Split  ->  Glob  ->  Unquote
   Expand(word, env) is the argument list.
   env.dev is the set of DEVIATIONS of the implementation that are switched on (empty = the ideal semantics):
     LiteralSplit   unquoted literal text of the word is field-split like an expansion result
     NoEmptyFields  every IFS character just ends the current field; a non-whitespace separator never delimits an empty one
     BraceJoin      brace expansion re-joins its words with blanks and relies on field splitting to separate them
     StarJoinSpace  "$*" joins with a blank when IFS is empty                                                        *)
EXTENDS Glob

Mk(c, q, s) == [c |-> c, q |-> q, s |-> s]
QE == Mk("", TRUE, FALSE)                        \* marker left by an empty quoted string: keeps its field alive
Mark(txt, q, s) == [i \in 1..Len(txt) |-> Mk(txt[i], q, s)]
Quoted(txt) == IF txt = <<>> THEN <<QE>> ELSE Mark(txt, TRUE, FALSE)

IfsOf(env) == IF env.ifs = <<"UNSET">> THEN <<" ", "TAB", "NL">> ELSE env.ifs
IfsSet(env) == {IfsOf(env)[i] : i \in 1..Len(IfsOf(env))}
IsWs(c) == c \in {" ", "TAB", "NL"}
Joiner(env) == IF env.ifs = <<"UNSET">> THEN <<" ">> ELSE IF env.ifs = <<>> THEN (IF "StarJoinSpace" \in env.dev THEN <<" ">> ELSE <<>>) ELSE <<env.ifs[1]>>

RECURSIVE StripNl(_)
StripNl(t) == IF t # <<>> /\ t[Len(t)] = "NL" THEN StripNl(SubSeq(t, 1, Len(t) - 1)) ELSE t
RECURSIVE JoinWith(_, _)
JoinWith(vals, j) == IF vals = <<>> THEN <<>> ELSE IF Len(vals) = 1 THEN vals[1] ELSE vals[1] \o j \o JoinWith(Tail(vals), j)

\* ---- a piece yields a list of fields; <<>> means "nothing at all" ($@ with no parameters)
IsSet(env, n) == env.vars[n] # <<"UNSET">>
ValOf(env, n) == IF IsSet(env, n) THEN env.vars[n] ELSE <<>>

\* glue a list of piece results together: adjacent results concatenate at their boundary fields
RECURSIVE Glue(_, _)
Glue(acc, res) == IF res = <<>> THEN acc
                  ELSE IF acc = <<>> THEN res
                  ELSE SubSeq(acc, 1, Len(acc) - 1) \o <<acc[Len(acc)] \o res[1]>> \o Tail(res)

Spl(fs) == [i \in 1..Len(fs) |-> [j \in 1..Len(fs[i]) |-> IF fs[i][j].q THEN fs[i][j] ELSE Mk(fs[i][j].c, FALSE, TRUE)]]
RECURSIVE PieceFields(_, _, _), WordFields(_, _, _)
\* inDq: inside double quotes everything is quoted; "$@" still yields one field per parameter
PieceFields(p, env, inDq) ==
  CASE p.k = "lit" -> <<IF inDq THEN Mark(p.x, TRUE, FALSE) ELSE Mark(p.x, FALSE, "LiteralSplit" \in env.dev)>>
    [] p.k = "spl" -> <<Mark(p.x, FALSE, TRUE)>>
    [] p.k = "sq"  -> <<Quoted(p.x)>>
    [] p.k = "esc" -> <<Mark(<<p.x>>, TRUE, FALSE)>>
    [] p.k = "dq"  -> LET inner == WordFields(p.y, env, TRUE) IN
                      IF inner = <<>> THEN (IF p.y # <<>> /\ \A i \in 1..Len(p.y) : p.y[i].k \in {"at", "arr"} THEN <<>> ELSE <<<<QE>>>>)
                      ELSE [i \in 1..Len(inner) |-> IF inner[i] = <<>> THEN <<QE>> ELSE inner[i]]
    [] p.k = "var" -> <<IF inDq THEN Quoted(ValOf(env, p.x)) ELSE Mark(ValOf(env, p.x), FALSE, TRUE)>>
    [] p.k = "cs"  -> LET t == StripNl(ValOf(env, p.x) \o <<"NL", "NL">>) IN <<IF inDq THEN Quoted(t) ELSE Mark(t, FALSE, TRUE)>>
    [] p.k = "ar"  -> <<IF inDq THEN Quoted(p.x) ELSE Mark(p.x, FALSE, TRUE)>>
    [] p.k = "at"  -> [i \in 1..Len(env.params) |-> IF inDq THEN Quoted(env.params[i]) ELSE Mark(env.params[i], FALSE, TRUE)]
    [] p.k = "star" -> IF inDq THEN <<Quoted(JoinWith(env.params, Joiner(env)))>>
                       ELSE [i \in 1..Len(env.params) |-> Mark(env.params[i], FALSE, TRUE)]
    [] p.k = "arr" -> LET a == env.arrs[p.x] IN [i \in 1..Len(a) |-> IF inDq THEN Quoted(a[i]) ELSE Mark(a[i], FALSE, TRUE)]
    [] p.k = "arrs" -> LET a == env.arrs[p.x] IN
                       IF inDq THEN <<Quoted(JoinWith(a, Joiner(env)))>> ELSE [i \in 1..Len(a) |-> Mark(a[i], FALSE, TRUE)]
    [] p.k = "def" -> IF IsSet(env, p.x) /\ env.vars[p.x] # <<>>
                      THEN <<IF inDq THEN Quoted(env.vars[p.x]) ELSE Mark(env.vars[p.x], FALSE, TRUE)>>
                      ELSE LET w == Spl(WordFields(p.y, env, inDq)) IN IF w = <<>> THEN <<<<>>>> ELSE w
    [] p.k = "alt" -> IF IsSet(env, p.x) /\ env.vars[p.x] # <<>>
                      THEN LET w == Spl(WordFields(p.y, env, inDq)) IN IF w = <<>> THEN <<<<>>>> ELSE w
                      ELSE <<<<>>>>
    [] p.k = "tilde" -> <<Mark(env.home, TRUE, FALSE)>>
WordFields(w, env, inDq) ==
  IF w = <<>> THEN <<>>
  ELSE Glue(WordFields(SubSeq(w, 1, Len(w) - 1), env, inDq), PieceFields(w[Len(w)], env, inDq))

\* ---- field splitting (POSIX 2.6.5) on the splittable characters of one field
IsSep(m, ifs) == m.s /\ m.c \in ifs
RECURSIVE SkipWs(_, _, _)
SkipWs(f, i, ifs) == IF i <= Len(f) /\ IsSep(f[i], ifs) /\ IsWs(f[i].c) THEN SkipWs(f, i + 1, ifs) ELSE i
Delim(f, i, ifs) == LET j == SkipWs(f, i, ifs) IN            \* ws* [one non-ws separator] ws*
                    IF j <= Len(f) /\ IsSep(f[j], ifs) /\ ~IsWs(f[j].c) THEN SkipWs(f, j + 1, ifs) ELSE j
\* an empty field closed by a delimiter exists only next to a non-whitespace separator: it is kept (marker SE)
SE == Mk("", FALSE, FALSE)
Close(cur, dev) == IF cur = <<>> /\ "NoEmptyFields" \notin dev THEN <<SE>> ELSE cur
RECURSIVE Scan(_, _, _, _, _, _)
Scan(f, i, ifs, cur, acc, dev) ==
  IF i > Len(f) THEN acc \o <<cur>>
  ELSE IF IsSep(f[i], ifs)
       THEN LET j == Delim(f, i, ifs) IN
            IF j > Len(f) THEN acc \o <<Close(cur, dev)>>          \* a trailing delimiter does not open another field
            ELSE Scan(f, j, ifs, <<>>, acc \o <<Close(cur, dev)>>, dev)
       ELSE Scan(f, i + 1, ifs, Append(cur, f[i]), acc, dev)
SplitField(f, ifs, dev) == IF ifs = {} THEN <<f>>
                      ELSE LET i == SkipWs(f, 1, ifs) IN IF i > Len(f) THEN <<SubSeq(f, 1, 0)>> ELSE Scan(f, i, ifs, <<>>, <<>>, dev)
RECURSIVE SplitAll(_, _, _)
SplitAll(fs, ifs, dev) == IF fs = <<>> THEN <<>> ELSE SplitField(fs[1], ifs, dev) \o SplitAll(Tail(fs), ifs, dev)
\* null removal: a field with no character and no quoted part disappears
NonNull(f) == f # <<>>
Keep(fs) == SelectSeq(fs, NonNull)

\* ---- pathname expansion of one field against the directory
HasGlob(f) == \E i \in 1..Len(f) : ~f[i].q /\ f[i].c \in {"*", "?", "["}
RECURSIVE PatOf(_)
PatOf(f) == IF f = <<>> THEN <<>>
            ELSE (IF f[1].c = "" THEN <<>> ELSE IF f[1].q /\ f[1].c \in {"*", "?", "[", "]", "\\", "!", "-"} THEN <<"\\", f[1].c>> ELSE <<f[1].c>>) \o PatOf(Tail(f))
RECURSIVE LexLess(_, _)
LexLess(a, b) == IF a = <<>> THEN b # <<>> ELSE IF b = <<>> THEN FALSE
                 ELSE IF a[1] = b[1] THEN LexLess(Tail(a), Tail(b)) ELSE Ord(a[1]) < Ord(b[1])
RECURSIVE SortNames(_)
SortNames(S) == IF S = {} THEN <<>> ELSE LET m == CHOOSE x \in S : \A y \in S \ {x} : LexLess(x, y) IN <<m>> \o SortNames(S \ {m})
Text(f) == LET g == SelectSeq(f, LAMBDA m : m.c # "") IN [i \in 1..Len(g) |-> g[i].c]
GlobField(f, env) ==
  IF ~HasGlob(f) THEN <<Text(f)>>
  ELSE LET pat == PatOf(f)
           dotOK == Text(f) # <<>> /\ Text(f)[1] = "."
           hits == {env.dir[i] : i \in {j \in 1..Len(env.dir) : (env.dir[j][1] # "." \/ dotOK) /\ Match(pat, env.dir[j], FALSE, FALSE)}} IN
       IF hits = {} THEN <<Text(f)>> ELSE SortNames(hits)
RECURSIVE GlobAll(_, _)
GlobAll(fs, env) == IF fs = <<>> THEN <<>> ELSE GlobField(fs[1], env) \o GlobAll(Tail(fs), env)

\* ---- brace expansion: purely textual, before everything else (one brace piece per word in the generated grammar)
BraceWords(w) ==
  LET B == {i \in 1..Len(w) : w[i].k = "brace"} IN
  IF B = {} THEN <<w>>
  ELSE LET i == CHOOSE j \in B : TRUE IN
       [a \in 1..Len(w[i].y) |-> SubSeq(w, 1, i - 1) \o w[i].y[a] \o SubSeq(w, i + 1, Len(w))]

ExpandOne(w, env) == GlobAll(Keep(SplitAll(WordFields(w, env, FALSE), IfsSet(env), env.dev)), env)
RECURSIVE ExpandWords(_, _)
ExpandWords(ws, env) == IF ws = <<>> THEN <<>> ELSE ExpandOne(ws[1], env) \o ExpandWords(Tail(ws), env)
\* as built (DEV BraceJoin): the generated words are joined with blanks into ONE word, which is then expanded and split
RECURSIVE JoinWords(_)
JoinWords(ws) == IF Len(ws) = 1 THEN ws[1] ELSE ws[1] \o <<[k |-> "spl", x |-> <<" ">>, y |-> <<>>]>> \o JoinWords(Tail(ws))
Expand(w, env) == IF "BraceJoin" \in env.dev /\ Len(BraceWords(w)) > 1 THEN ExpandOne(JoinWords(BraceWords(w)), env) ELSE ExpandWords(BraceWords(w), env)

\* assignment context (y=word): no splitting, no globbing; "$@" joins with a space
AssignValue(w, env) == LET fs == WordFields(w, env, FALSE) IN Text(JoinWith([i \in 1..Len(fs) |-> fs[i]], <<Mk(" ", TRUE, FALSE)>>))

\* ---------------- C04: quoted expansions are exact, whatever the value / IFS / directory
QuotedIdentity(v, env0) ==
  LET env == [env0 EXCEPT !.vars = [n \in DOMAIN env0.vars |-> IF n = "x" THEN v ELSE env0.vars[n]], !.params = <<v, v>>, !.arrs = [n \in DOMAIN env0.arrs |-> <<v, v>>]] IN
  /\ Expand(<<[k |-> "dq", x |-> <<>>, y |-> <<[k |-> "var", x |-> "x", y |-> <<>>]>>]>>, env) = <<v>>
  /\ Expand(<<[k |-> "dq", x |-> <<>>, y |-> <<[k |-> "at", x |-> <<>>, y |-> <<>>]>>]>>, env) = <<v, v>>
  /\ Expand(<<[k |-> "dq", x |-> <<>>, y |-> <<[k |-> "arr", x |-> "a", y |-> <<>>]>>]>>, env) = <<v, v>>
  /\ AssignValue(<<[k |-> "var", x |-> "x", y |-> <<>>]>>, env) = v
\* inter-stage sanity: splitting never alters or removes a quoted character
SplitKeepsQuoted(w, env) ==
  LET before == WordFields(w, env, FALSE)
      after == SplitAll(before, IfsSet(env), env.dev)
      Q(fs) == [i \in 1..Len(fs) |-> SelectSeq(fs[i], LAMBDA m : m.q)] IN
  JoinWith(Q(before), <<>>) = JoinWith(Q(after), <<>>)
=============================================================================
