#!/bin/bash
# Builds the framework offline from files on disk: the harness workspace (which builds the hooked brush
# from /repo's working tree with --cfg brush_verif) and a SANY pass over every specification.
set -e
cd "$(dirname "$0")"
export CARGO_NET_OFFLINE=true
[ -f harness/Cargo.lock ] || cp /repo/Cargo.lock harness/Cargo.lock
(cd harness && cargo build --offline 2>&1 | tail -3)
for f in spec/*.tla; do
  (cd spec && java -cp /opt/veriftools/tla/tla2tools.jar:/opt/veriftools/tla/CommunityModules-deps.jar tla2sany.SANY "$(basename "$f")" > /tmp/sany.$$ 2>&1) || { cat /tmp/sany.$$; echo "SANY failed on $f"; exit 1; }
  if grep -q "error" /tmp/sany.$$ | grep -qv "^Linting"; then cat /tmp/sany.$$; exit 1; fi
done
rm -f /tmp/sany.$$
echo setup ok
