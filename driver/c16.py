"""C16 - the EXIT trap runs exactly once on every way out, and traps preserve $? (spec/Interp.tla)."""
import hashlib
from .common import *
from . import interp_check as ic

PROP = "C16"
KNOWN_DEVS_ALL = ["ExitInExitTrapIgnored", "ErrTrapOnAnyFlow", "ErrTrapRearmedOnExit", "SubshellExitTrapSkipped"]


def nd(t, a=0, b=0, c=0, n=0, m=0):
    return {"t": t, "a": a, "b": b, "c": c, "n": n, "m": m, "foc": 0}


HANDLERS = {
    "marker": [nd("M", m=0)],
    "fail": [nd("M", m=1)],
    "fn": [nd("fn", a=2), nd("M", m=0)],
    "exit": [nd("seq", a=2, b=3), nd("M", m=0), nd("exit", n=9)],
    "untrap": [nd("seq", a=2, b=3), nd("M", m=0), nd("trapr", n=1)],
}
ERR_HANDLERS = {"marker": [nd("M", m=0)], "fail": [nd("M", m=1)], "exit": [nd("seq", a=2, b=3), nd("M", m=0), nd("exit", n=8)],
                # a failing command one level down inside the handler (text run by eval, or - rendered as a sourced text - by `.`): still no re-entry
                "evalfail": [nd("eval", a=2), nd("M", m=1)]}
E, U, EE = ("seto", 1, 1), ("seto", 2, 1), ("seto", 5, 1)


def trap_item(kind, handler):
    nodes = [nd(kind, a=2)]
    for h in handler:
        h = dict(h)
        for f in ("a", "b", "c"):
            if h[f]:
                h[f] += 1
        nodes.append(h)
    return nodes


def prefixes(P, tier, rnd):
    """trap set / replaced / removed / with ERR, x option sets that make the way out reachable"""
    kinds = set(n["t"] for n in P)
    fails = any(n["t"] in ("M", "X") and n["m"] != 0 and n.get("foc") for n in P)
    opt_sets = [()]
    if fails:
        opt_sets.append((E,))
    if "us" in kinds:
        opt_sets = [(U,), (E, U)]
    # thorough: every body, two handlers and three shapes each (the full product of 5 handlers x 6 shapes does not finish in hours)
    hs = rnd.sample(list(HANDLERS), 2) if tier == "thorough" else [rnd.choice(list(HANDLERS))]
    out = []
    for opts in opt_sets:
        for h in hs:
            H = HANDLERS[h]
            shapes = {
                "set": [trap_item("trapx", H)],
                "replaced": [trap_item("trapx", HANDLERS["marker"]), trap_item("trapx", H)],
                "removed": [trap_item("trapx", H), ("trapr", 0, 0)],
            }
            eh = rnd.choice(list(ERR_HANDLERS))
            shapes["err+exit"] = [trap_item("trape", ERR_HANDLERS[eh]), trap_item("trapx", H)]
            shapes["err"] = [trap_item("trape", ERR_HANDLERS[eh])]
            # errtrace (set -E) shapes are generated only while F-C16-6 is not a recorded finding: with it, brush runs
            # the ERR handler for the `return` statements *inside the prelude's functions*, which the model cannot see
            if ("fn" in kinds or "sub" in kinds) and ERRTRACE_OK:
                shapes["errtrace"] = [EE, trap_item("trape", ERR_HANDLERS[eh]), trap_item("trapx", H)]
            others = ["replaced", "removed", "err+exit", "err"] + (["errtrace"] if "errtrace" in shapes else [])
            names = ["set"] + (rnd.sample(others, 2) if tier == "thorough" else [rnd.choice(others)])
            for nm in names:
                out.append((nm + "/" + h, list(opts) + shapes[nm]))
    return out


ERRTRACE_OK = False


def run(tier):
    global ERRTRACE_OK
    v = Verdict(PROP, tier, "model_checking")
    ERRTRACE_OK = v.known_dev("ErrTrapOnAnyFlow") is None
    build_harness()
    ic.validate_prelude()
    progs, gstats = ic.gen_programs(["MC_InterpGen_c16_quick.cfg"])
    total = len(progs)
    progs, groups = ic.stratified(progs, 1, SEED)
    if tier == "quick":
        rnd0 = random_for("sel")
        progs = [P for P in progs if rnd0.random() < 0.5]
    wrapped, labels = [], {}
    for P in progs:
        rnd = random_for(json.dumps(P, sort_keys=True))
        for label, pre in prefixes(P, tier, rnd):
            w = ic.wrap(P, ic.prog_id(P, [label, str(pre)]), pre)
            # a third of the bodies with an `eval` (and no `return`, which means something else in a sourced text) run it as a sourced text instead
            if any(n["t"] == "eval" for n in w["P"]) and not any(n["t"] == "ret" for n in w["P"]) and int(w["id"][1:7], 16) % 3 == 0:
                w["src"] = True
            wrapped.append(w)
            labels[w["id"]] = label
    wrapped = ic.cap(wrapped, int(os.environ.get("VERIF_THOROUGH_CAP", "25000")))
    preds, mstats = ic.predict(wrapped)
    fronts = ("c", "file", "stdin")
    results = ic.run_cases(wrapped, preds, fronts=fronts)
    known = [d for d in KNOWN_DEVS_ALL if v.known_dev(d)]
    cnt = ic.classify(v, wrapped, preds, results, known, lambda f: f["what"][:110], fronts=fronts)
    if v.audit_disagreements > 0.02 * len(wrapped):
        raise ToolError("model/bash disagreement rate too high: %d of %d" % (v.audit_disagreements, len(wrapped)))
    nt = sum(1 for p in wrapped if preds[p["id"]]["xruns"] == 1 or preds[p["id"]]["gh"]["err"] > 0)
    samples = []
    for res in results[:: max(1, len(results) // 3)][:3]:
        samples.append({"kind": labels[res["id"]], "script": res["script"].split("\n", 5)[5], "predicted": [ic.marker(e) for e in preds[res["id"]]["out"]],
                        "predicted_exit": preds[res["id"]]["exit"], "brush(-c)": res["obs"]["brush/c"]["lines"], "brush_exit": res["obs"]["brush/c"]["rc"]})
    return v.finish({
        "states": gstats["states"] + mstats["states"], "transitions": gstats["states"] + mstats["states"],
        "distinct_states": gstats["distinct"] + mstats["distinct"],
        "traces_validated_against_impl": len(wrapped) * len(fronts),
        "evaluations": 2 * len(wrapped) * len(fronts), "distinct_nontrivial": nt,
        "rule": "bodies generated by TLC (InterpGen profile C16: each way out - end of script, exit n, errexit, nounset, ${x:?}, exec, return - at every "
                "position of every construct-in-construct chain; a third of the bodies with an eval run it as a sourced text) x trap prefix (set / replaced / removed / ERR+EXIT / ERR only / errtrace) x handler "
                "(marker, failing command, function call, `exit m`, changes another trap) x option sets x front-end (-c, script file, stdin); "
                "non-trivial = the model ran the EXIT handler (xruns = 1) or an ERR handler (gh.err > 0)",
        "bodies_generated": total, "strata": groups, "programs_run": len(wrapped), "fronts": list(fronts),
        "exit_trap_ran": sum(1 for p in wrapped if preds[p["id"]]["xruns"] == 1),
        "err_trap_ran": sum(1 for p in wrapped if preds[p["id"]]["gh"]["err"] > 0),
        "exhaustive": False, "samples": samples, "outcomes": dict(cnt),
        "model_invariants": ["ExitOnce (xruns <= 1 in every state)", "DoneClean", "LevelsOK", "Bounded", "deadlock-free"],
    }, assumptions=["bash 5.2.15 is the reference; a case counts only if bash reproduces the model's prediction in every front-end",
                    "EXIT traps set inside ( ) subshells are generated only where the model and bash agree; judged as an extension"])


def random_for(key):
    import random
    return random.Random(int(hashlib.sha1((str(SEED) + key).encode()).hexdigest()[:12], 16))


def replay(path):
    from .c02 import replay as r
    return r(path)
