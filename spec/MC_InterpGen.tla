---------------------------- MODULE MC_InterpGen ----------------------------
(* Model-checking configurations of the program generator (constants stated here). *)
EXTENDS InterpGen

Lf(t, n, m) == [t |-> t, n |-> n, m |-> m]

\* ---- C02 (control flow, no options)
C02_Full == { Lf("M",0,0), Lf("M",0,1), Lf("T",0,0), Lf("X",0,3),
              Lf("brk",1,0), Lf("brk",2,0), Lf("cont",1,0), Lf("cont",2,0), Lf("kc",1,0),
              Lf("ret",5,0), Lf("exit",4,0) }
C02_Lite == { Lf("M",0,0), Lf("M",0,1) }
C02_Constructs == {"seq", "and", "or", "not", "grp", "sub", "fn", "eval", "cs", "for2", "afor2", "if", "elif", "while", "until", "case"}
C02_Cases == { <<1, 1, 0>>, <<2, 2, 0>>, <<2, 3, 1>>, <<2, 3, 2>>, <<3, 5, 1>>, <<3, 5, 2>>, <<2, 0, 0>> }
C02_Lite1 == { Lf("M",0,1) }
C02_Constructs3 == {"seq", "and", "not", "grp", "sub", "fn", "eval", "for2", "if", "while", "until", "case"}
C02_Cases3 == { <<2, 3, 1>>, <<2, 3, 2>>, <<2, 2, 0>> }

\* ---- C03 (errexit / nounset / pipefail): the focus leaf is the failing command or an option toggle
C03_Full == { Lf("M",0,1), Lf("X",0,3), Lf("us",0,0), Lf("seto",1,0), Lf("seto",1,1), Lf("ret",5,0), Lf("exit",4,0), Lf("brk",1,0) }
C03_Lite == { Lf("M",0,0), Lf("M",0,1) }
C03_Constructs == {"seq", "and", "or", "not", "grp", "sub", "fn", "eval", "cs", "pipe", "for2", "if", "elif", "while", "until", "case"}
C03_Cases == { <<1, 1, 0>>, <<2, 3, 1>>, <<2, 3, 2>> }

\* ---- C16 (EXIT / ERR traps): the focus leaf is a way out of the shell (or a failing command for ERR)
C16_Full == { Lf("M",0,0), Lf("M",0,1), Lf("X",0,3), Lf("us",0,0), Lf("fe",0,0), Lf("exit",4,0), Lf("ret",5,0), Lf("execx",6,0) }
C16_Lite == { Lf("M",0,0), Lf("M",0,1) }
C16_Constructs == {"seq", "and", "or", "not", "grp", "sub", "fn", "eval", "for2", "if", "while", "case"}
C16_Cases == { <<1, 1, 0>>, <<2, 3, 1>> }
\* C03 nesting: exempt context > boundary (function / group / subshell / $( ) / eval / pipeline) > list with a failing non-final command
C03N_Full == { Lf("M",0,1), Lf("X",0,3) }
C03N_Lite == { Lf("M",0,0) }
C03N_Constructs == {"seq", "and", "or", "not", "grp", "sub", "fn", "eval", "cs", "pipe", "if", "while"}
C03N_Cases == { <<1, 1, 0>> }

\* ---- C18 (leaks): fault leaves at every position; no exit (the shell must survive to be measured)
C18_Full == { Lf("f_in",0,0), Lf("f_out",0,0), Lf("f_cmd",0,0), Lf("f_sub",0,0), Lf("f_ro",0,0), Lf("f_tmp",0,0), Lf("f_tmpro",0,0), Lf("f_redirfn",0,0),
              Lf("ret",5,0), Lf("brk",1,0), Lf("cont",1,0), Lf("M",0,1), Lf("X",0,3), Lf("us",0,0) }
\* (no `break 2` at depth 1: that is C02's recorded finding F-C02-1 and would end the measured shell)
C18_Lite == { Lf("M",0,0), Lf("M",0,1) }
C18_Constructs == {"seq", "and", "or", "not", "grp", "sub", "fn", "eval", "cs", "pipe", "for2", "if", "case"}
C18_Cases == { <<1, 1, 0>>, <<2, 3, 1>> }

\* ---- C15a (delivery modes): control flow sample plus $LINENO probes
C15_Full == { Lf("L",0,0), Lf("M",0,1), Lf("brk",1,0), Lf("ret",5,0), Lf("exit",4,0), Lf("X",0,3) }
C15_Lite == { Lf("M",0,0), Lf("L",0,0) }
C15_Constructs == {"seq", "and", "or", "not", "grp", "sub", "fn", "eval", "cs", "for2", "if", "elif", "while", "case"}
C15_Cases == { <<2, 3, 1>>, <<2, 2, 0>> }
=============================================================================
