CONSTANTS Names = {"x", "y"} DEV = {} Profile = "scope" L = 4
INIT Init
NEXT Next
INVARIANTS Emit RoOK NeutralOK
CHECK_DEADLOCK FALSE
