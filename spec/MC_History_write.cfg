\* extension: histories that include `history -w`; the properties that survive it
CONSTANTS
  Sessions = {1, 2}
  MaxOps = 6
  Kinds = {"a", "hash"}
  WithWrite = TRUE
  Emit = FALSE
SPECIFICATION Spec
INVARIANTS TsAttached ReloadEq TypeOK
CHECK_DEADLOCK FALSE
