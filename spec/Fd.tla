---------------------------------- MODULE Fd ----------------------------------
(* Redirections (C10): brush-core/src/interp.rs (setup_redirect, ExecutionParameters' per-command descriptor table over
   the shell's persistent one), openfiles.rs, commands.rs - the POSIX / bash meaning of a redirection list.

   ofd    table of OPEN FILE DESCRIPTIONS: id -> [k, name, off, app, r, w]; k = "stream" (the captured stdout / stderr /
          empty stdin of the run, ids 1..3) | "file" | "text" (here-document / here-string body)
          Two descriptors made by duplication share one description (and its offset); two opens of one file do not.
   files  name -> content (sequence of characters) or ABSENT
   tab    the shell's persistent descriptor table: fd -> ofd id or 0
   A redirection r = [op, n, w]:  op in  in out app clob rw dupout dupin close both bothapp text ; n = fd ; w = file name /
   source fd / text.  Redirs(list) are applied left to right to a COPY of the table; the first failure stops the list and
   the command is not run.  A probe command then writes its tag followed by the fd number to every descriptor 1..9 that is
   open for writing, in ascending order, and records which descriptors it has and what it can read from descriptor 0. *)
EXTENDS Naturals, Sequences, FiniteSets, TLC

ABSENT == <<"ABSENT">>
Fds == 0..9
Ofd(k, name, off, app, r, w) == [k |-> k, name |-> name, off |-> off, app |-> app, r |-> r, w |-> w]
\* state record S = [ofd, files, tab, out, err, clob, rep, next]
\*   out / err: what the run's stdout / stderr captured; clob = noclobber set; rep: sequence of probe reports; next: fresh ofd id

NewOfd(S, o) == [S EXCEPT !.ofd = [i \in (DOMAIN S.ofd) \cup {S.next} |-> IF i = S.next THEN o ELSE S.ofd[i]], !.next = S.next + 1]

\* writing text through a description
Overlay(c, off, t) == LET n == IF off + Len(t) > Len(c) THEN off + Len(t) ELSE Len(c) IN
                      [i \in 1..n |-> IF i > off /\ i <= off + Len(t) THEN t[i - off] ELSE IF i <= Len(c) THEN c[i] ELSE "NUL"]
WriteTo(S, id, t) ==
  LET o == S.ofd[id] IN
  IF ~o.w THEN S
  ELSE IF o.k = "stream" THEN (IF o.name = "OUT" THEN [S EXCEPT !.out = S.out \o t] ELSE IF o.name = "ERR" THEN [S EXCEPT !.err = S.err \o t] ELSE S)
  ELSE IF o.k = "file"
       THEN LET c == IF S.files[o.name] = ABSENT THEN <<>> ELSE S.files[o.name]
                off == IF o.app THEN Len(c) ELSE o.off IN
            [S EXCEPT !.files[o.name] = Overlay(c, off, t), !.ofd[id].off = off + Len(t)]
       ELSE S
\* everything that can be read from a description from its current offset (consumes it)
ReadAll(S, id) ==
  LET o == S.ofd[id] IN
  IF ~o.r THEN <<>>
  ELSE IF o.k = "file" THEN (LET c == IF S.files[o.name] = ABSENT THEN <<>> ELSE S.files[o.name] IN SubSeq(c, (IF o.off > Len(c) THEN Len(c) ELSE o.off) + 1, Len(c)))
  ELSE IF o.k = "text" THEN SubSeq(o.name, o.off + 1, Len(o.name))
  ELSE <<>>
AfterRead(S, id) == LET o == S.ofd[id] IN
                    IF ~o.r THEN S
                    ELSE IF o.k = "file" THEN [S EXCEPT !.ofd[id].off = Len(IF S.files[o.name] = ABSENT THEN <<>> ELSE S.files[o.name])]
                    ELSE IF o.k = "text" THEN [S EXCEPT !.ofd[id].off = Len(o.name)] ELSE S

\* ---- one redirection on table t (a function fd -> id).  Result [ok, S, t]
Res(ok, S, t) == [ok |-> ok, S |-> S, t |-> t]
OpenFile(S, t, n, name, trunc, app, rd, wr, create, excl) ==
  IF S.files[name] = ABSENT /\ ~create THEN Res(FALSE, S, t)
  ELSE IF excl /\ S.files[name] # ABSENT THEN Res(FALSE, S, t)
  ELSE LET S1 == [S EXCEPT !.files[name] = IF S.files[name] = ABSENT \/ trunc THEN <<>> ELSE S.files[name]]
           S2 == NewOfd(S1, Ofd("file", name, 0, app, rd, wr)) IN
       Res(TRUE, S2, [t EXCEPT ![n] = S1.next])
Redir(S, t, r) ==
  CASE r.op = "in"    -> OpenFile(S, t, r.n, r.w, FALSE, FALSE, TRUE, FALSE, FALSE, FALSE)
    [] r.op = "out"   -> OpenFile(S, t, r.n, r.w, TRUE, FALSE, FALSE, TRUE, TRUE, S.clob)
    [] r.op = "clob"  -> OpenFile(S, t, r.n, r.w, TRUE, FALSE, FALSE, TRUE, TRUE, FALSE)
    [] r.op = "app"   -> OpenFile(S, t, r.n, r.w, FALSE, TRUE, FALSE, TRUE, TRUE, FALSE)
    [] r.op = "rw"    -> OpenFile(S, t, r.n, r.w, FALSE, FALSE, TRUE, TRUE, TRUE, FALSE)
    [] r.op \in {"dupout", "dupin"} -> IF t[r.w] = 0 THEN Res(FALSE, S, t) ELSE Res(TRUE, S, [t EXCEPT ![r.n] = t[r.w]])
    [] r.op = "close" -> Res(TRUE, S, [t EXCEPT ![r.n] = 0])
    [] r.op = "both"  -> LET a == OpenFile(S, t, 1, r.w, TRUE, FALSE, FALSE, TRUE, TRUE, S.clob) IN IF ~a.ok THEN a ELSE Res(TRUE, a.S, [a.t EXCEPT ![2] = a.t[1]])
    [] r.op = "bothapp" -> LET a == OpenFile(S, t, 1, r.w, FALSE, TRUE, FALSE, TRUE, TRUE, FALSE) IN IF ~a.ok THEN a ELSE Res(TRUE, a.S, [a.t EXCEPT ![2] = a.t[1]])
    [] r.op = "text"  -> LET S2 == NewOfd(S, Ofd("text", r.w, 0, FALSE, TRUE, FALSE)) IN Res(TRUE, S2, [t EXCEPT ![r.n] = S.next])
RECURSIVE Redirs(_, _, _)
Redirs(S, t, rs) == IF rs = <<>> THEN Res(TRUE, S, t)
                    ELSE LET a == Redir(S, t, rs[1]) IN IF ~a.ok THEN a ELSE Redirs(a.S, a.t, Tail(rs))

\* ---- the probe: writes <tag><fd> to every writable descriptor 1..9 in ascending order; reports its descriptors and stdin
Digit(n) == CASE n = 0 -> "0" [] n = 1 -> "1" [] n = 2 -> "2" [] n = 3 -> "3" [] n = 4 -> "4" [] n = 5 -> "5" [] n = 6 -> "6" [] n = 7 -> "7" [] n = 8 -> "8" [] n = 9 -> "9"
RECURSIVE ProbeWrite(_, _, _, _)
ProbeWrite(S, t, tag, n) == IF n > 9 THEN S
                            ELSE ProbeWrite(IF t[n] # 0 THEN WriteTo(S, t[n], <<tag, Digit(n)>>) ELSE S, t, tag, n + 1)
OpenSet(S, t) == {<<n, S.ofd[t[n]].r, S.ofd[t[n]].w>> : n \in {m \in Fds : t[m] # 0}}
Probe(S, t, tag) ==
  LET inp == IF t[0] = 0 THEN <<>> ELSE ReadAll(S, t[0])
      S1 == IF t[0] = 0 THEN S ELSE AfterRead(S, t[0])
      S2 == [S1 EXCEPT !.rep = Append(S1.rep, [tag |-> tag, fds |-> OpenSet(S, t), inp |-> inp])] IN
  ProbeWrite(S2, t, tag, 1)

\* ---- statements.  st = [k, rs, body, tag]
\*   k = "cmd": a probe with redirections rs         "grp": redirections rs around the statements of body (brace group, subshell,
\*   loop, function - all alike for descriptors)     "exec": rs applied to the shell's own table   "setC": noclobber on
RECURSIVE Run(_, _, _), RunSeq(_, _, _)
Run(S, t, st) ==
  CASE st.k = "cmd"  -> LET a == Redirs(S, t, st.rs) IN IF ~a.ok THEN a.S ELSE Probe(a.S, a.t, st.tag)
    [] st.k = "grp"  -> LET a == Redirs(S, t, st.rs) IN IF ~a.ok THEN a.S ELSE RunSeq(a.S, a.t, st.body)
    [] st.k = "setC" -> [S EXCEPT !.clob = TRUE]
    [] OTHER -> S
\* exec changes the table that the FOLLOWING statements see, so sequences thread the table
RunSeq(S, t, sts) ==
  IF sts = <<>> THEN S
  ELSE IF sts[1].k = "exec"
       THEN LET a == Redirs(S, t, sts[1].rs) IN IF ~a.ok THEN RunSeq(a.S, t, Tail(sts)) ELSE RunSeq(a.S, a.t, Tail(sts))
       ELSE RunSeq(Run(S, t, sts[1]), t, Tail(sts))

Init0(fileset, f0) ==
  [ofd |-> [i \in 1..3 |-> CASE i = 1 -> Ofd("stream", "IN", 0, FALSE, TRUE, FALSE) [] i = 2 -> Ofd("stream", "OUT", 0, FALSE, FALSE, TRUE) [] i = 3 -> Ofd("stream", "ERR", 0, FALSE, FALSE, TRUE)],
   files |-> [n \in fileset |-> IF n \in DOMAIN f0 THEN f0[n] ELSE ABSENT], out |-> <<>>, err |-> <<>>, clob |-> FALSE, rep |-> <<>>, next |-> 4]
Tab0 == [n \in Fds |-> CASE n = 0 -> 1 [] n = 1 -> 2 [] n = 2 -> 3 [] OTHER -> 0]

\* ---------------- properties of the model itself (checked over the generated programs)
\* a command's redirections never change the table its successors see (only exec does): by construction of RunSeq
\* noclobber: `>` never changes an existing file
NoClobberSound(S, t, r) == (S.clob /\ r.op \in {"out", "both"} /\ S.files[r.w] # ABSENT) => (~Redir(S, t, r).ok /\ Redir(S, t, r).S.files = S.files)
=============================================================================
