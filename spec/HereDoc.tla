------------------------------- MODULE HereDoc -------------------------------
(* Here-document bodies (C10, second part): brush-parser/src/tokenizer.rs (HereState, remove_here_end_tag), word.rs
   (parse_heredoc), brush-core expansion of the body.

   A document is opened by a redirection with delimiter E in one of the FORMS
     "plain"  <<E      "dash"  <<-E      "quoted"  <<'E'  (also <<\E, <<"E")      "dashq"  <<-'E'
   and is followed by LINES (sequences of characters, without their newline).  The body ends before the first line
   that - after removing leading tabs in the dash forms - equals the delimiter; if there is none the body runs to the
   end of the input.  Leading tabs of body lines are removed in the dash forms only.  With an unquoted delimiter the
   body undergoes parameter / command expansion and backslash processing (\$ \` \\ lose the backslash, backslash-newline
   joins lines, every other backslash stays); with a quoted delimiter it is delivered as it is.
   Body(form, lines) is what the command reads on the descriptor.  x=V, `echo s` / $(echo s) print s.          *)
EXTENDS Naturals, Sequences, TLC

Dash(form) == form \in {"dash", "dashq"}
Expanding(form) == form \in {"plain", "dash"}
RECURSIVE StripTabs(_)
StripTabs(l) == IF l # <<>> /\ l[1] = "TAB" THEN StripTabs(Tail(l)) ELSE l
IsEnd(form, l) == (IF Dash(form) THEN StripTabs(l) ELSE l) = <<"E">>
RECURSIVE BodyLines(_, _)
BodyLines(form, lines) == IF lines = <<>> THEN <<>>
                          ELSE IF IsEnd(form, lines[1]) THEN <<>>
                          ELSE <<IF Dash(form) THEN StripTabs(lines[1]) ELSE lines[1]>> \o BodyLines(form, Tail(lines))
RECURSIVE AfterLines(_, _)
AfterLines(form, lines) == IF lines = <<>> THEN <<>> ELSE IF IsEnd(form, lines[1]) THEN Tail(lines) ELSE AfterLines(form, Tail(lines))   \* what follows the document: commands again
Terminated(form, lines) == \E i \in 1..Len(lines) : IsEnd(form, lines[i])
RECURSIVE JoinNl(_)
JoinNl(ls) == IF ls = <<>> THEN <<>> ELSE ls[1] \o <<"NL">> \o JoinNl(Tail(ls))

StartsWith(t, p) == Len(t) >= Len(p) /\ SubSeq(t, 1, Len(p)) = p
Drop(t, n) == SubSeq(t, n + 1, Len(t))
RECURSIVE Exp(_)
Exp(t) ==
  IF t = <<>> THEN <<>>
  ELSE IF StartsWith(t, <<"\\", "$">>) THEN <<"$">> \o Exp(Drop(t, 2))
  ELSE IF StartsWith(t, <<"\\", "`">>) THEN <<"`">> \o Exp(Drop(t, 2))
  ELSE IF StartsWith(t, <<"\\", "\\">>) THEN <<"\\">> \o Exp(Drop(t, 2))
  ELSE IF StartsWith(t, <<"\\", "NL">>) THEN Exp(Drop(t, 2))
  ELSE IF StartsWith(t, <<"$", "{", "x", "}">>) THEN <<"V">> \o Exp(Drop(t, 4))
  ELSE IF StartsWith(t, <<"$", "x">>) THEN <<"V">> \o Exp(Drop(t, 2))
  ELSE IF StartsWith(t, <<"$", "(", "e", "c", "h", "o", " ", "s", ")">>) THEN <<"s">> \o Exp(Drop(t, 9))
  ELSE IF StartsWith(t, <<"`", "e", "c", "h", "o", " ", "s", "`">>) THEN <<"s">> \o Exp(Drop(t, 8))
  ELSE <<t[1]>> \o Exp(Tail(t))
Body(form, lines) == LET raw == JoinNl(BodyLines(form, lines)) IN IF Expanding(form) THEN Exp(raw) ELSE raw

\* sanity: a quoted delimiter delivers the lines byte for byte; dash forms differ from the others only by leading tabs
QuotedIsLiteral(lines) == Body("quoted", lines) = JoinNl(BodyLines("quoted", lines))
DashOnlyTabs(lines) == (\A i \in 1..Len(lines) : lines[i] = <<>> \/ lines[i][1] # "TAB") => Body("dash", lines) = Body("plain", lines) /\ Body("dashq", lines) = Body("quoted", lines)
=============================================================================
