CONSTANTS Components <- MComponents Mutators <- MMutators CompOf <- MCompOf Contexts <- MContexts ProcessWide = {"umask", "ulimit"} MaxMut = 2 JobWaited <- MJobWaited
DEV = {}
SPECIFICATION Spec
INVARIANTS Isolation LeakNeedsMutation ParentSurvives Emit
CHECK_DEADLOCK FALSE
