CONSTANTS
  N = 2
  CAP = 2
  Payloads = {0, 1}
  DEV = {}
SPECIFICATION TraceSpec
CONSTRAINT Track
INVARIANTS InOrderOnce SpawnBeforeWait
POSTCONDITION Report
CHECK_DEADLOCK FALSE
