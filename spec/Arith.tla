-------------------------------- MODULE Arith --------------------------------
(* Shell arithmetic (C07): brush-parser/src/arithmetic.rs (PEG precedence table, literal forms) and
   brush-core/src/arithmetic.rs (wrapping evaluation, short-circuit, assignment) - the semantics of bash's expr.c:
   C precedence and associativity over wrapping signed 64-bit integers (Word64.tla).

   An expression is a sequence of TOKENS  [t, v]:
     t = "num"  v = [base, ds]   digits ds (values, most significant first) in base 2..64; the driver writes decimal,
                                 0octal, 0xhex or base#digits
     t = "id"   v = name         t = "op"  v = operator text        t = "(" / ")"
   Parse(toks) is the tree bash's recursive-descent reader builds; Eval(tree, env) threads the variable
   environment left to right.  env: name -> [k = "unset"] | [k = "val", w] | [k = "toks", toks]  (a variable whose
   content is itself an expression is evaluated recursively when referenced).
   Result: [st = "ok" | "err", w, env, und]   (und: the value depends on C-undefined behaviour - shift counts
   outside 0..63 - and is not judged).                                                                       *)
EXTENDS Word64, TLC

Tok(t, v) == [t |-> t, v |-> v]
Fail == [ok |-> FALSE, ast |-> <<>>, i |-> 0]
Okp(ast, i) == [ok |-> TRUE, ast |-> ast, i |-> i]

\* binary operator levels (higher binds tighter); ** is right associative, the rest left
Level(op) == CASE op = "||" -> 4 [] op = "&&" -> 5 [] op = "|" -> 6 [] op = "^" -> 7 [] op = "&" -> 8
               [] op \in {"==", "!="} -> 9 [] op \in {"<", ">", "<=", ">="} -> 10 [] op \in {"<<", ">>"} -> 11
               [] op \in {"+", "-"} -> 12 [] op \in {"*", "/", "%"} -> 13 [] op = "**" -> 14 [] OTHER -> 0
AsgOps == {"=", "*=", "/=", "%=", "+=", "-=", "<<=", ">>=", "&=", "^=", "|="}
IsOp(toks, i, ops) == i <= Len(toks) /\ toks[i].t = "op" /\ toks[i].v \in ops
IsT(toks, i, t) == i <= Len(toks) /\ toks[i].t = t

\* a literal is valid when its base is 2..64 and every digit is below the base (at least one digit)
NumOK(v) == v.base \in 2..64 /\ v.ds # <<>> /\ \A j \in 1..Len(v.ds) : v.ds[j] < v.base
RECURSIVE ParseComma(_, _), ParseCommaLoop(_, _, _), ParseAssign(_, _), ParseCond(_, _), ParseBin(_, _, _), ParseBinLoop(_, _, _, _), ParseUnary(_, _), ParsePrimary(_, _)
ParseComma(toks, i) == LET a == ParseAssign(toks, i) IN IF ~a.ok THEN Fail ELSE ParseCommaLoop(toks, a.ast, a.i)
ParseCommaLoop(toks, lhs, i) ==
  IF IsOp(toks, i, {","}) THEN LET b == ParseAssign(toks, i + 1) IN
                               IF ~b.ok THEN Fail ELSE ParseCommaLoop(toks, [k |-> "bin", op |-> ",", a |-> lhs, b |-> b.ast], b.i)
  ELSE Okp(lhs, i)
ParseAssign(toks, i) ==
  IF IsT(toks, i, "id") /\ IsOp(toks, i + 1, AsgOps)
  THEN LET r == ParseAssign(toks, i + 2) IN IF ~r.ok THEN Fail ELSE Okp([k |-> "asg", op |-> toks[i + 1].v, n |-> toks[i].v, a |-> r.ast], r.i)
  ELSE ParseCond(toks, i)
ParseCond(toks, i) ==
  LET c == ParseBin(toks, i, 4) IN
  IF ~c.ok THEN Fail
  ELSE IF IsOp(toks, c.i, {"?"})
       THEN LET t == ParseComma(toks, c.i + 1) IN
            IF ~t.ok \/ ~IsOp(toks, t.i, {":"}) THEN Fail
            ELSE LET e == ParseCond(toks, t.i + 1) IN IF ~e.ok THEN Fail ELSE Okp([k |-> "cond", a |-> c.ast, b |-> t.ast, c |-> e.ast], e.i)
       ELSE c
ParseBin(toks, i, min) == LET l == ParseUnary(toks, i) IN IF ~l.ok THEN Fail ELSE ParseBinLoop(toks, l.ast, l.i, min)
ParseBinLoop(toks, lhs, i, min) ==
  IF i <= Len(toks) /\ toks[i].t = "op" /\ Level(toks[i].v) >= min /\ Level(toks[i].v) > 0
  THEN LET op == toks[i].v  lv == Level(op)
           r == ParseBin(toks, i + 1, IF op = "**" THEN lv ELSE lv + 1) IN
       IF ~r.ok THEN Fail ELSE ParseBinLoop(toks, [k |-> "bin", op |-> op, a |-> lhs, b |-> r.ast], r.i, min)
  ELSE Okp(lhs, i)
ParseUnary(toks, i) ==
  IF IsOp(toks, i, {"!", "~", "-", "+"})
  THEN LET a == ParseUnary(toks, i + 1) IN IF ~a.ok THEN Fail ELSE Okp([k |-> "un", op |-> toks[i].v, a |-> a.ast], a.i)
  ELSE IF IsOp(toks, i, {"++", "--"})
       THEN (IF IsT(toks, i + 1, "id") THEN Okp([k |-> "pre", op |-> toks[i].v, n |-> toks[i + 1].v], i + 2)
             ELSE LET a == ParseUnary(toks, i + 1)  u == IF toks[i].v = "++" THEN "+" ELSE "-" IN       \* `++1`, `--(x)`: two unary signs (bash's reader)
                  IF ~a.ok THEN Fail ELSE Okp([k |-> "un", op |-> u, a |-> [k |-> "un", op |-> u, a |-> a.ast]], a.i))
       ELSE ParsePrimary(toks, i)
ParsePrimary(toks, i) ==
  IF IsT(toks, i, "num") THEN (IF NumOK(toks[i].v) THEN Okp([k |-> "num", w |-> FromDigits(toks[i].v.base, toks[i].v.ds)], i + 1) ELSE Fail)
  ELSE IF IsT(toks, i, "id")
       THEN (IF IsOp(toks, i + 1, {"++", "--"}) THEN Okp([k |-> "post", op |-> toks[i + 1].v, n |-> toks[i].v], i + 2)
             ELSE Okp([k |-> "ref", n |-> toks[i].v], i + 1))
       ELSE IF IsT(toks, i, "(")
            THEN LET e == ParseComma(toks, i + 1) IN IF e.ok /\ IsT(toks, e.i, ")") THEN Okp(e.ast, e.i + 1) ELSE Fail
            ELSE Fail
\* an empty expression is 0
Parse(toks) == IF toks = <<>> THEN Okp([k |-> "num", w |-> Zero], 1)
               ELSE LET p == ParseComma(toks, 1) IN IF p.ok /\ p.i = Len(toks) + 1 THEN p ELSE Fail

\* ---------------------------------------------------------------- evaluation
R(st, w, env, und) == [st |-> st, w |-> w, env |-> env, und |-> und]
Bool(b) == IF b THEN One ELSE Zero
InShiftRange(b) == ~IsNeg(b) /\ Ult(b, FromSmall(64))
ApplyBin(op, a, b) ==     \* [st, w, und]
  CASE op = "+" -> <<"ok", Add(a, b), FALSE>> [] op = "-" -> <<"ok", Sub(a, b), FALSE>> [] op = "*" -> <<"ok", Mul(a, b), FALSE>>
    [] op = "/" -> IF IsZero(b) THEN <<"err", Zero, FALSE>> ELSE <<"ok", SDiv(a, b), FALSE>>
    [] op = "%" -> IF IsZero(b) THEN <<"err", Zero, FALSE>> ELSE <<"ok", SMod(a, b), FALSE>>
    [] op = "**" -> IF IsNeg(b) THEN <<"err", Zero, FALSE>> ELSE <<"ok", Pow(a, b), FALSE>>
    [] op = "<<" -> IF InShiftRange(b) THEN <<"ok", Shl(a, SmallOf(b)), FALSE>> ELSE <<"ok", Zero, TRUE>>
    [] op = ">>" -> IF InShiftRange(b) THEN <<"ok", Sar(a, SmallOf(b)), FALSE>> ELSE <<"ok", Zero, TRUE>>
    [] op = "&" -> <<"ok", And(a, b), FALSE>> [] op = "|" -> <<"ok", Or(a, b), FALSE>> [] op = "^" -> <<"ok", Xor(a, b), FALSE>>
    [] op = "==" -> <<"ok", Bool(a = b), FALSE>> [] op = "!=" -> <<"ok", Bool(a # b), FALSE>>
    [] op = "<" -> <<"ok", Bool(Slt(a, b)), FALSE>> [] op = ">" -> <<"ok", Bool(Slt(b, a)), FALSE>>
    [] op = "<=" -> <<"ok", Bool(Sle(a, b)), FALSE>> [] op = ">=" -> <<"ok", Bool(Sle(b, a)), FALSE>>
BaseOp(asgop) == CASE asgop = "*=" -> "*" [] asgop = "/=" -> "/" [] asgop = "%=" -> "%" [] asgop = "+=" -> "+" [] asgop = "-=" -> "-"
                   [] asgop = "<<=" -> "<<" [] asgop = ">>=" -> ">>" [] asgop = "&=" -> "&" [] asgop = "^=" -> "^" [] asgop = "|=" -> "|"
Store(env, n, w) == [env EXCEPT ![n] = [k |-> "val", w |-> w]]

RECURSIVE Eval(_, _, _), Lookup(_, _, _)
\* the value of a variable: unset / empty -> 0; a stored number; otherwise its text is parsed and evaluated (depth-bounded)
Lookup(n, env, d) ==
  LET e == env[n] IN
  CASE e.k = "unset" -> R("ok", Zero, env, FALSE)
    [] e.k = "val" -> R("ok", e.w, env, FALSE)
    [] e.k = "toks" -> IF d = 0 THEN R("err", Zero, env, FALSE)
                       ELSE LET p == Parse(e.toks) IN IF ~p.ok THEN R("err", Zero, env, FALSE) ELSE Eval(p.ast, env, d - 1)
\* an error met after an operand whose value was C-undefined inherits the flag: whether the failing operand was evaluated at all
\* (short-circuit, ?:) may have depended on that value
WithUnd(r, u) == [r EXCEPT !.und = r.und \/ u]
Eval(x, env, d) ==
  CASE x.k = "num" -> R("ok", x.w, env, FALSE)
    [] x.k = "ref" -> Lookup(x.n, env, d)
    [] x.k = "un" -> LET a == Eval(x.a, env, d) IN
                     IF a.st = "err" THEN a
                     ELSE R("ok", CASE x.op = "!" -> Bool(IsZero(a.w)) [] x.op = "~" -> Not(a.w) [] x.op = "-" -> Neg(a.w) [] x.op = "+" -> a.w, a.env, a.und)
    [] x.k = "bin" ->
         LET a == Eval(x.a, env, d) IN
         IF a.st = "err" THEN a
         ELSE IF x.op = "&&" THEN (IF IsZero(a.w) THEN R("ok", Zero, a.env, a.und)
                                   ELSE LET b == Eval(x.b, a.env, d) IN IF b.st = "err" THEN WithUnd(b, a.und) ELSE R("ok", Bool(~IsZero(b.w)), b.env, a.und \/ b.und))
         ELSE IF x.op = "||" THEN (IF ~IsZero(a.w) THEN R("ok", One, a.env, a.und)
                                   ELSE LET b == Eval(x.b, a.env, d) IN IF b.st = "err" THEN WithUnd(b, a.und) ELSE R("ok", Bool(~IsZero(b.w)), b.env, a.und \/ b.und))
         ELSE LET b == Eval(x.b, a.env, d) IN
              IF b.st = "err" THEN WithUnd(b, a.und)
              ELSE IF x.op = "," THEN R("ok", b.w, b.env, a.und \/ b.und)
              ELSE LET r == ApplyBin(x.op, a.w, b.w) IN R(r[1], r[2], b.env, a.und \/ b.und \/ r[3])
    [] x.k = "cond" -> LET c == Eval(x.a, env, d) IN
                       IF c.st = "err" THEN c
                       ELSE LET r == Eval(IF IsZero(c.w) THEN x.c ELSE x.b, c.env, d) IN IF r.st = "err" THEN WithUnd(r, c.und) ELSE R("ok", r.w, r.env, c.und \/ r.und)
    [] x.k = "asg" ->
         IF x.op = "=" THEN LET r == Eval(x.a, env, d) IN IF r.st = "err" THEN r ELSE R("ok", r.w, Store(r.env, x.n, r.w), r.und)
         ELSE LET cur == Lookup(x.n, env, d) IN                \* the left side is read BEFORE the right side is evaluated (bash expassign)
              IF cur.st = "err" THEN cur
              ELSE LET r == Eval(x.a, cur.env, d) IN
                   IF r.st = "err" THEN WithUnd(r, cur.und)
                   ELSE LET v == ApplyBin(BaseOp(x.op), cur.w, r.w) IN
                        IF v[1] = "err" THEN R("err", Zero, r.env, cur.und \/ r.und) ELSE R("ok", v[2], Store(r.env, x.n, v[2]), cur.und \/ r.und \/ v[3])
    [] x.k \in {"pre", "post"} ->
         LET cur == Lookup(x.n, env, d) IN
         IF cur.st = "err" THEN cur
         ELSE LET nv == IF x.op = "++" THEN Add(cur.w, One) ELSE Sub(cur.w, One) IN
              R("ok", IF x.k = "pre" THEN nv ELSE cur.w, Store(cur.env, x.n, nv), cur.und)

Run(toks, env) == LET p == Parse(toks) IN IF ~p.ok THEN R("err", Zero, env, FALSE) ELSE Eval(p.ast, env, 4)

\* the fully parenthesised token sequence of a tree (for the redundant-parentheses rendering; numbers keep their digits via num2)
RECURSIVE Unparse(_)
P(s) == <<Tok("(", "")>> \o s \o <<Tok(")", "")>>
Unparse(x) ==
  CASE x.k = "num" -> <<Tok("numw", x.w)>>
    [] x.k = "ref" -> <<Tok("id", x.n)>>
    [] x.k = "un" -> P(<<Tok("op", x.op)>> \o Unparse(x.a))
    [] x.k = "bin" -> P(Unparse(x.a) \o <<Tok("op", x.op)>> \o Unparse(x.b))
    [] x.k = "cond" -> P(Unparse(x.a) \o <<Tok("op", "?")>> \o Unparse(x.b) \o <<Tok("op", ":")>> \o Unparse(x.c))
    [] x.k = "asg" -> P(<<Tok("id", x.n), Tok("op", x.op)>> \o Unparse(x.a))
    [] x.k = "pre" -> P(<<Tok("op", x.op), Tok("id", x.n)>>)
    [] x.k = "post" -> P(<<Tok("id", x.n), Tok("op", x.op)>>)
=============================================================================
