CONSTANTS DEV = {"GluedRedirects"}
INIT Init
NEXT Next
INVARIANT AllSound
CHECK_DEADLOCK FALSE
