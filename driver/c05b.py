"""C05, second part - brace sequence expressions {x..y[..s]} (spec/MC_BraceSeq.tla): numeric sequences with steps of either sign, zero padding
by spelling, letter sequences, each alone and glued between a prefix and a suffix; the argument lists must equal the model's and bash's."""
from .common import *


def spell(n):
    return ("-" if n["neg"] else "") + "".join(str(d) for d in n["d"])


def run_part(v, tier):
    r = run_tlc("MC_BraceSeq", "MC_BraceSeq.cfg", workers=1, want_lines=("ROW",), timeout=600, xmx="3g")
    if not r["ok"]:
        raise ToolError("MC_BraceSeq failed: %s" % r["violation"])
    rows = r["lines"]["ROW"]
    rows.sort(key=lambda x: json.dumps(x, sort_keys=True))
    cases = []
    for row in rows:
        if row["k"] == "num":
            x, y, terms = spell(row["x"]), spell(row["y"]), [spell(t) for t in row["terms"]]
        else:
            x, y, terms = chr(row["x"]), chr(row["y"]), [chr(t) for t in row["terms"]]
        e = "{%s..%s%s}" % (x, y, "" if row["s"] == 99 else "..%d" % row["s"])
        cases.append((e, terms))
        cases.append(("p" + e + "s", ["p" + t + "s" for t in terms]))
    jobs = [cases[i:i + 150] for i in range(0, len(cases), 150)]

    def one(g):
        L = ["F() { printf '%s\\0' \"$#\" \"$@\"; }"]
        for i, (e, _) in enumerate(g):
            L.append("printf 'R%d\\0'; F %s" % (i, e))
        scr = "\n".join(L) + "\n"
        return g, scr, run_script("bash", scr, front="file", timeout=60), run_script("brush", scr, front="file", timeout=90)
    from .c06b import parse
    n = 0
    for g, scr, b, rr in pmap(one, jobs):
        if crashed(rr) or rr["timeout"]:
            v.violation("seq-crash:" + scr[:80], {"kind": "crash or hang", "part": "brace sequences", "script": scr[:1500], "stderr": rr["err"][-300:]})
            continue
        pb, pr = parse(b["out"]), parse(rr["out"])
        for i, (e, exp) in enumerate(g):
            n += 1
            if pb.get(i) != exp:
                v.audit_miss({"part": "brace sequences", "expr": e, "model": exp, "bash": pb.get(i)})
                continue
            if pr.get(i) != exp:
                v.violation("seq|" + e, {"kind": "brace sequence expands differently", "part": "brace sequences", "expr": e, "expected": exp, "observed": pr.get(i)})
    return n
