\* C16 quick: every way out of the shell at every position of every construct-in-construct chain
CONSTANTS
  Depth = 2
  MaxNodes = 9
  Bushy = FALSE
  LeavesFull <- C16_Full
  LeavesLite <- C16_Lite
  Constructs <- C16_Constructs
  CaseShapes <- C16_Cases
INIT Init
NEXT Next
INVARIANT Emit
CHECK_DEADLOCK FALSE
