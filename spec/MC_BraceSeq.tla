----------------------------- MODULE MC_BraceSeq -----------------------------
(* Brace SEQUENCE expressions {x..y[..s]} (C05, second part): brush-core/src/braceexpansion.rs expand_brace_expr_member,
   brush-parser/src/word.rs brace_expansions.  WordExp.tla takes the alternatives of a brace piece as given; this module
   states how a sequence expression generates them.

   Numeric  {x..y..s}:  starts at x and moves toward y in steps of |s| (s = 0 or absent: 1), never passing y; the sign of s
            is irrelevant.  If x or y is written with a leading zero every term is zero-padded to the wider of the two
            spellings (a minus sign counts toward the width).
   Letters  {c..d..s}:  the same walk over character codes.
   A numeral is given as [neg, digits]: its spelling matters (leading zeros).                                          *)
EXTENDS Integers, Sequences, FiniteSets, TLC, Json

Abs(n) == IF n < 0 THEN -n ELSE n
RECURSIVE Walk(_, _, _)
Walk(x, y, st) ==      \* st > 0
  IF x = y THEN <<x>>
  ELSE IF x < y THEN (IF x + st > y THEN <<x>> ELSE <<x>> \o Walk(x + st, y, st))
  ELSE (IF x - st < y THEN <<x>> ELSE <<x>> \o Walk(x - st, y, st))
Terms(x, y, s) == Walk(x, y, IF s = 0 THEN 1 ELSE Abs(s))

\* numerals as spelled
RECURSIVE ValD(_)
ValD(ds) == IF ds = <<>> THEN 0 ELSE ValD(SubSeq(ds, 1, Len(ds) - 1)) * 10 + ds[Len(ds)]
Val(n) == IF n.neg THEN -ValD(n.d) ELSE ValD(n.d)
Width(n) == Len(n.d) + (IF n.neg THEN 1 ELSE 0)
LeadingZero(n) == Len(n.d) > 1 /\ n.d[1] = 0
RECURSIVE DigitsOf(_)
DigitsOf(k) == IF k < 10 THEN <<k>> ELSE DigitsOf(k \div 10) \o <<k % 10>>
RECURSIVE Zeros(_)
Zeros(k) == IF k <= 0 THEN <<>> ELSE <<0>> \o Zeros(k - 1)
\* the spelling of term v with minimum width w (0 = no padding): sign, zeros, digits
Spell(v, w) == LET ds == DigitsOf(Abs(v))  sg == IF v < 0 THEN 1 ELSE 0 IN
               [neg |-> v < 0, d |-> Zeros(w - sg - Len(ds)) \o ds]
NumSeq(x, y, s) == LET w == IF LeadingZero(x) \/ LeadingZero(y) THEN (IF Width(x) > Width(y) THEN Width(x) ELSE Width(y)) ELSE 0
                       ts == Terms(Val(x), Val(y), s) IN
                   [i \in 1..Len(ts) |-> Spell(ts[i], w)]
N(neg, d) == [neg |-> neg, d |-> d]
Numerals == {N(FALSE, <<0>>), N(FALSE, <<1>>), N(FALSE, <<3>>), N(FALSE, <<1, 0>>), N(TRUE, <<2>>), N(FALSE, <<0, 1>>), N(FALSE, <<0, 0, 7>>), N(TRUE, <<0, 3>>), N(FALSE, <<1, 2>>)}
Steps == {99, 1, 2, 3, 0, -2, 7, -1}          \* 99: no step written
StepVal(s) == IF s = 99 THEN 1 ELSE s
\* letters by code
Letters == {97, 98, 101, 102, 103, 122}
ChrSeq(c, d, s) == Terms(c, d, s)

\* sanity: a sequence starts at x, stays between x and y, and consecutive terms differ by the step
SeqSane(x, y, s) == LET ts == Terms(x, y, s)  st == IF s = 0 THEN 1 ELSE Abs(s) IN
   /\ ts[1] = x
   /\ \A i \in 1..Len(ts) : (x <= y => x <= ts[i] /\ ts[i] <= y) /\ (x > y => y <= ts[i] /\ ts[i] <= x)
   /\ \A i \in 1..(Len(ts) - 1) : Abs(ts[i + 1] - ts[i]) = st
   /\ Abs(y - ts[Len(ts)]) < st

VARIABLE done
Init == done = FALSE
Next == done' = TRUE
Row(r) == PrintT(<<"ROW", ToJson(r)>>)
Emit == done \/
  /\ \A x \in Numerals, y \in Numerals, s \in Steps :
        /\ Assert(SeqSane(Val(x), Val(y), StepVal(s)), <<"numeric sequence", x, y, s>>)
        /\ Row([k |-> "num", x |-> x, y |-> y, s |-> s, terms |-> NumSeq(x, y, StepVal(s))])
  /\ \A c \in Letters, d \in Letters, s \in Steps :
        /\ Assert(SeqSane(c, d, StepVal(s)), <<"letter sequence", c, d, s>>)
        /\ Row([k |-> "chr", x |-> c, y |-> d, s |-> s, terms |-> ChrSeq(c, d, StepVal(s))])
=============================================================================
