CONSTANTS Fams = {"bin", "flat3", "flat4", "un", "asg", "inc", "cond", "rec", "err", "tree"} NChunks = 12 Stride = 3000 Phase = 0
INIT Init
NEXT Next
INVARIANT Emit
CHECK_DEADLOCK FALSE
