"""C15 part (b) - a command runs as soon as, and only when, the text read so far is a complete command (spec/Complete.tla).

TLC enumerates every valid prefix of <= N lines over the line alphabet of Complete.tla with its NeedsMore verdict; the
implementation's decision function (brush_interactive::completeness, through the guarded export verif_needs_more_input)
is called in-process on every prefix.  bash -n audits the model: it must accept a prefix the model calls complete and
report an unexpected end of file on one the model calls open (here-documents and a trailing backslash excepted: bash -n
accepts those at end of file, while a reader would go on reading)."""
from .common import *


def run_part(v, tier):
    from .c19 import run_linedrv
    cfg = "MC_Complete_quick.cfg" if tier == "quick" else "MC_Complete_thorough.cfg"
    r = run_tlc("MC_Complete", cfg, workers=8, want_lines=("PREFIX", "TABLE"), timeout=3000, xmx="8g")
    if not r["ok"]:
        raise ToolError("Complete.tla failed: %s" % r["violation"])
    table = r["lines"]["TABLE"][0]
    pref = r["lines"]["PREFIX"]
    pref.sort(key=lambda p: json.dumps(p["lines"]))
    texts = ["".join(table[n] + "\n" for n in p["lines"]) for p in pref]
    recs, problems = run_linedrv("more", list(enumerate(texts)), timeout=600)
    for pb in problems:
        v.violation("b-hang:" + str(pb.get("first_unanswered_line"))[:80], {"kind": "the completeness decision hung or the process died", "part": "b", **pb})
    got = {}
    for rec in recs:
        if "panic" in rec:
            v.violation("b-panic:" + texts[rec["id"]], {"kind": "the completeness decision panicked", "part": "b", "text": texts[rec["id"]], "panic": rec["panic"]})
        else:
            got[rec["id"]] = rec["more"]

    def audit(i):
        p = pref[i]
        # bash -n accepts an open here-document and a trailing backslash at end of file: those two are judged on the text with the
        # document closed / the backslash removed (the rest of the prefix must still be what the model says it is)
        t = texts[i]
        expect = p["more"]
        closers = {"HERE": "E\n", "HERED": "\tE\n", "HERE2": "E\nF\n", "HEREF": "F\n"}
        if p["open"] and p["open"][-1] in closers:
            t += closers[p["open"][-1]]
            expect = len(p["open"]) > 1
        elif p["lines"] and p["lines"][-1] in ("cmdbs", "sqcbs", "dqcbs"):
            t = t[:-3] + "\n"
            expect = bool(p["open"])
        d = tempfile.mkdtemp(prefix="bn-", dir=scratch())
        pth = os.path.join(d, "t.sh")
        with open(pth, "w") as f:
            f.write(t)
        rb = run_proc([BASH, "--norc", "--noprofile", "-n", pth], d, dict(BASE_ENV), None, 20)
        shutil.rmtree(d, ignore_errors=True)
        if rb["rc"] == 0:
            res = False
        elif re.search(r"unexpected end of file|unexpected EOF|unexpected token `EOF'", rb["err"]):
            res = True
        else:
            return i, "invalid"
        return i, (p["more"] if res == expect else "differs")
    nontrivial = 0
    audited_ok = set()
    for i, bash_more in pmap(audit, range(len(pref))):
        p = pref[i]
        if bash_more is not None and bash_more != p["more"]:
            v.audit_miss({"part": "b", "text": texts[i], "model_more": p["more"], "bash": bash_more})
            continue
        audited_ok.add(i)
        if p["more"]:
            nontrivial += 1
        if i in got and got[i] != p["more"]:
            if known_b(v, p, texts[i]):
                continue
            v.violation("b:" + texts[i], {"kind": "the shell would %s" % ("wait for more input although the command is complete" if got[i] else "run an incomplete command"), "part": "b", "text": texts[i],
                                          "expected_more": p["more"], "observed_more": got[i], "open": p["open"], "lines": p["lines"]})
    # the same decision as the readers take it: a complete program fed on standard input must run exactly like the same text in a file
    # (a command started too early or too late shows up as different output), and like bash reading it on standard input
    import random
    rnd = random.Random(SEED)
    complete = [i for i in range(len(pref)) if not pref[i]["more"] and i in audited_ok]
    if tier == "quick" and len(complete) > 1500:
        complete = rnd.sample(complete, 1500)

    def deliver(i):
        t = texts[i]
        # a job left in the background is collected before the end of input, so that its output does not race with the end of the shell
        if any(n in ("amp", "fiamp") for n in pref[i]["lines"]):
            t += "wait\n"
        f = run_script("brush", t, front="file", timeout=30)
        s_ = run_script("brush", t, front="stdin", timeout=30)
        b = run_script("bash", t, front="stdin", timeout=30)
        return i, f, s_, b
    for i, f, s_, b in pmap(deliver, complete):
        if crashed(s_) or s_["timeout"]:
            v.violation("b-stdin-crash:" + texts[i], {"kind": "crash or hang reading the program on standard input", "part": "b", "text": texts[i], "stderr": s_["err"][-300:]})
            continue
        if any(n in ("amp", "fiamp") for n in pref[i]["lines"]):
            # the output of a background job interleaves freely with the foreground's: only WHAT is printed is compared, not the order
            for r_ in (f, s_, b):
                r_["out"] = "\n".join(sorted(r_["out"].splitlines()))
        if (b["out"], b["rc"]) != (f["out"], f["rc"]):
            continue            # brush (file) and bash differ on this text for reasons that are not about delivery: not judged here
        if (s_["out"], s_["rc"]) != (f["out"], f["rc"]):
            v.violation("b-stdin:" + texts[i], {"kind": "the program runs differently when read from standard input", "part": "b", "text": texts[i], "file": [f["out"], f["rc"]], "stdin": [s_["out"], s_["rc"]], "stderr": s_["err"][-300:]})
    return {"states": r["distinct"], "prefixes": len(pref), "nontrivial": nontrivial, "maxlines": 3 if tier == "quick" else 4, "delivered": len(complete),
            "sample": {"text": texts[len(texts) // 2], "more": pref[len(pref) // 2]["more"]}}


def known_b(v, p, text):
    for f in v.findings:
        if f.get("status") == "known" and f.get("mode") == "class" and f.get("part") == "b":
            if f.get("open_any") and not any(m in p["open"] for m in f["open_any"]):
                continue
            if f.get("text_match") and not re.search(f["text_match"], text, re.S):
                continue
            v.known(f["id"], f["what"][:110])
            return True
    return False
