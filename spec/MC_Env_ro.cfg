CONSTANTS Names = {"x", "y"} DEV = {} Profile = "ro" L = 4
INIT Init
NEXT Next
INVARIANTS Emit RoOK NeutralOK
CHECK_DEADLOCK FALSE
