\* C03 quick: a failing leaf / option toggle at every position of every construct-in-construct chain
CONSTANTS
  Depth = 2
  MaxNodes = 9
  Bushy = FALSE
  LeavesFull <- C03_Full
  LeavesLite <- C03_Lite
  Constructs <- C03_Constructs
  CaseShapes <- C03_Cases
INIT Init
NEXT Next
INVARIANT Emit
CHECK_DEADLOCK FALSE
