-------------------------------- MODULE Spans --------------------------------
(* Syntax-highlighting spans (C19): brush-interactive/src/highlighting.rs highlight_command.
   A record describes one call: len = byte length of the line, bounds = the byte offsets that are character
   boundaries (0 and len included, increasing), spans = the returned <<start, end>> ranges in order.
   SpansOK: the spans are ordered, contiguous, non-overlapping, aligned to character boundaries and cover
   the line exactly - rendering them one after the other reproduces the text.                          *)
EXTENDS Naturals, Sequences, FiniteSets

SetOf(s) == {s[i] : i \in 1..Len(s)}
SpansOK(len, bounds, spans) ==
  /\ (len = 0) = (spans = <<>>)                                        \* nothing to cover <=> no span
  /\ spans # <<>> => spans[1][1] = 0 /\ spans[Len(spans)][2] = len     \* starts at the beginning, ends at the end
  /\ \A i \in 1..Len(spans) : spans[i][1] < spans[i][2]                \* every span is non-empty and forward
  /\ \A i \in 1..(Len(spans) - 1) : spans[i][2] = spans[i+1][1]        \* contiguous: no gap, no overlap
  /\ \A i \in 1..Len(spans) : spans[i][1] \in SetOf(bounds) /\ spans[i][2] \in SetOf(bounds)   \* character aligned
=============================================================================
