"""C13 - shell-quoted output re-reads to the original values (spec/Quote.tla, Trace_Quote.tla).

For every value (all strings over a quoting-relevant alphabet up to length 3, plus seeded random longer ones) the
real shell produces its quoted renderings; three independent readers must recover the value:
  (1) spec/Quote.tla's Read, evaluated by TLC on every recorded (value, text) of the word forms
      (printf %q, ${v@Q}, alias, trap -p, the set -x trace);
  (2) `eval` in a fresh brush and (3) `eval` in a fresh bash, for the word forms and the declaration forms
      (${v@A}, declare -p of a scalar / indexed array / associative array, export -p, set)."""
import itertools, random
from .common import *

PROP = "C13"
ALPHA = ["'", '"', "\\", "$", "`", "!", " ", "\n", "\r", "\x01", "é", "a"]
LEAD = ["-", "~", "#", "=", "*", "[", "{", "\t", "\x1b", "\x7f"]

PRODUCER = r'''v=$V
F() { printf '%s\0' "$1"; }
printf -v t '%q' "$v"; F q; F "$t"
F Q; F "${v@Q}"
x=$v; F A; F "${x@A}"
F dp; F "$(declare -p x; echo .)"
a=("$v" z); F da; F "$(declare -p a; echo .)"
if [ -n "$v" ]; then declare -A m; m[$v]=$v; F dm; F "$(declare -p m; echo .)"; fi
export e="$v"; F ex; F "$(export -p; echo .)"
zzv=$v; F st; F "$(set; echo .)"
alias al="$v" 2>/dev/null && { F al; F "$(alias al; echo .)"; }
trap -- "$v" USR2; F tr; F "$(trap -p USR2; echo .)"
F xt; F "$( { set -x; : "$v"; set +x; } 2>&1; echo .)"
if [ "${#v}" -ne 3 ]; then declare -rx rxv="$v"; F dr; F "$(declare -p rxv; echo .)"; F Ar; F "${rxv@A}"; fi
'''

CONSUMER = {
    "q": 'eval "y=$TEXT"; printf \'%s\\0\' "$y"', "Q": 'eval "y=$TEXT"; printf \'%s\\0\' "$y"',
    "al": 'eval "y=$TEXT"; printf \'%s\\0\' "$y"', "tr": 'eval "y=$TEXT"; printf \'%s\\0\' "$y"', "xt": 'eval "y=$TEXT"; printf \'%s\\0\' "$y"',
    "A": 'eval "$TEXT"; printf \'%s\\0\' "${x-<unset>}"', "dp": 'eval "$TEXT"; printf \'%s\\0\' "${x-<unset>}"',
    "da": 'eval "$TEXT"; printf \'%s\\0\' "${#a[@]}" "${a[0]-<unset>}" "${a[1]-<unset>}"',
    "dm": 'eval "$TEXT"; for k in "${!m[@]}"; do printf \'%s\\0\' "$k" "${m[$k]}"; done',
    "ex": 'eval "$TEXT" 2>/dev/null; printf \'%s\\0\' "${e-<unset>}"; declare -p e 2>/dev/null | grep -c -- "-[a-zA-Z]*x" ',
    "st": 'eval "$TEXT" 2>/dev/null; printf \'%s\\0\' "${zzv-<unset>}"',
    # attributes travel with the declaration: the value, and both letters r and x
    "dr": 'eval "$TEXT"; a=${rxv@a}; case $a in *r*) case $a in *x*) a=rx;; esac;; esac; printf \'%s\\0\' "${rxv-<unset>}" "$a"',
    "Ar": 'eval "$TEXT"; a=${rxv@a}; case $a in *r*) case $a in *x*) a=rx;; esac;; esac; printf \'%s\\0\' "${rxv-<unset>}" "$a"',
}


def values(tier, rnd):
    vals = set()
    for n in range(0, 4):
        for t in itertools.product(ALPHA, repeat=n):
            vals.add("".join(t))
    for l in LEAD:
        vals.add(l)
        for c in ALPHA:
            vals.add(l + c)
    big = ALPHA + LEAD + ["b", ";", "&", "|", "<", ">", "(", ")", "?", "]", "}", "^", "%", "🚀", "\x02", "\x1f"]
    for _ in range(300 if tier == "quick" else 2500):
        vals.add("".join(rnd.choice(big) for _ in range(rnd.randint(4, 40))))
    return sorted(vals)


def extract_word(form, text, v):
    """the quoted word inside the rendering of a word form (None = format not recognised)"""
    if form in ("q", "Q"):
        return text
    t = text[:-2] if text.endswith("\n.") else text
    if form == "al":
        return t[len("alias al="):] if t.startswith("alias al=") else None
    if form == "tr":
        m = re.match(r"^trap -- (.*) (SIG)?USR2$", t, re.S)
        return m.group(1) if m else None
    if form == "xt":
        # trace lines: `+ : <word>` ... `+ set +x` (PS4's first character is repeated per nesting level); the word may span lines
        m = re.search(r"^\++ : (.*)\n\++ set \+x$", t, re.S | re.M)
        return m.group(1) if m else None
    return None


def decl_text(form, text):
    t = text[:-2] if text.endswith("\n.") else text
    if form == "st":
        i = t.find("\nzzv=")
        if t.startswith("zzv="):
            i = -1
        if i < 0 and not t.startswith("zzv="):
            return None
        t = t[i + 1:]
        # cut at the first following top-level line that starts another variable or function is not needed: zzv sorts last
        return t
    return t


def run(tier):
    v = Verdict(PROP, tier, "model_checking")
    build_harness()
    rnd = random.Random(SEED)
    vals = values(tier, rnd)

    def produce(val):
        r = run_script("brush", PRODUCER, front="file", extra_env={"V": val}, timeout=30)
        fields = r["out"].split("\0")
        forms = {}
        i = 0
        while i + 1 < len(fields):
            forms[fields[i]] = fields[i + 1]
            i += 2
        return val, r, forms
    produced = pmap(produce, vals)
    word_records, evals = [], []
    for val, r, forms in produced:
        if crashed(r) or r["timeout"]:
            v.violation("crash:%r" % val, {"kind": "shell crashed or hung while quoting", "value": val, "stderr": r["err"][-400:]})
            continue
        for form in ("q", "Q", "A", "dp", "da", "dm", "ex", "st", "al", "tr", "xt", "dr", "Ar"):
            if form not in forms:
                if form in ("dr", "Ar") and len(val) == 3:
                    continue
                if form == "dm" and val == "":
                    continue
                if form == "al" and ("=" in val or val == ""):
                    continue
                if form == "tr" and val == "-":
                    continue
                v.violation("missing:%s:%r" % (form, val), {"kind": "no output for form", "form": form, "value": val, "stderr": r["err"][-300:]})
                continue
            text = forms[form]
            if form == "tr" and val == "-":
                continue              # `trap -- - SIG` resets the trap: there is nothing to print
            if form in ("q", "Q", "al", "tr", "xt"):
                w = extract_word(form, text, val)
                if w is None:
                    v.violation("format:%s:%r" % (form, val), {"kind": "rendering not in the expected shape", "form": form, "value": val, "text": text})
                    continue
                word_records.append({"form": form, "v": val, "text": w})
                evals.append((form, val, w))
            else:
                t = decl_text(form, text)
                if t is None:
                    v.violation("format:%s:%r" % (form, val), {"kind": "declaration not found in the output", "form": form, "value": val, "text": text[-400:]})
                    continue
                evals.append((form, val, t))
    # (1) TLA+ reader on the word forms
    codes = sorted(set(ord(c) for rec in word_records for c in rec["v"]) | {7, 8, 11, 12, 27})
    table = {"c%d" % n: chr(n) for n in codes}
    nparts = 4
    parts = [word_records[i::nparts] for i in range(nparts)]
    d = tempfile.mkdtemp(prefix="trq-", dir=scratch())

    def check(k):
        if not parts[k]:
            return True, None, 0
        path = os.path.join(d, "t%d.ndjson" % k)
        with open(path, "w") as f:
            f.write(json.dumps({"chr": table}) + "\n")
            for rec in parts[k]:
                f.write(json.dumps({"v": list(rec["v"]), "text": list(rec["text"])}) + "\n")
        r = run_tlc("Trace_Quote", "Trace_Quote.cfg", workers=1, env={"TRACE": path}, timeout=3000, xmx="4g")
        if not r["ok"]:
            raise ToolError("Trace_Quote failed: %s" % r["violation"])
        states = r["states"]
        bads = [parts[k][int(m) - 2] for m in re.findall(r'<<"BAD_QUOTE", (\d+)>>', "\n".join(r.get("notes", [])))]
        return (not bads), bads, states
    states = 0
    for ok, bads, st in pmap(check, range(nparts), threads=nparts):
        states += st
        for b in (bads or []):
            if known(v, b["form"], b["v"], b["text"]):
                continue
            v.violation("read:%s:%r" % (b["form"], b["v"]), {"kind": "Quote.tla's reader does not get the value back", "form": b["form"], "value": b["v"], "text": b["text"]})
    shutil.rmtree(d, ignore_errors=True)
    # binding self-test
    # (2)(3) eval in brush and bash
    def consume(job):
        form, val, text = job
        out = {}
        for sh in ("brush", "bash"):
            r = run_script(sh, CONSUMER[form], front="file", extra_env={"TEXT": text}, timeout=30)
            out[sh] = r["out"].split("\0")[:-1] if form != "ex" else r["out"].split("\0")
        return job, out
    nevals = 0
    for (form, val, text), out in pmap(consume, evals):
        nevals += 2
        if form == "da":
            exp = ["2", val, "z"]
        elif form == "dm":
            exp = [val, val]
        elif form in ("dr", "Ar"):
            exp = [val, "rx"]
        elif form == "ex":
            exp = None
        else:
            exp = [val]
        for sh in ("brush", "bash"):
            got = out[sh]
            ok = (got[0] == val and got[1].strip() == "1") if form == "ex" and len(got) >= 2 else (got == exp)
            if not ok:
                if known(v, form, val, text, sh):
                    continue
                v.violation("eval:%s:%s:%r" % (sh, form, val), {"kind": "eval of the rendering in %s does not recreate the value" % sh, "form": form, "value": val, "text": text[-600:], "got": got[:4]})
    return v.finish({
        "states": states, "transitions": states, "traces_validated_against_impl": len(word_records),
        "evaluations": len(produced) + nevals, "distinct_nontrivial": sum(1 for x in vals if any(c in x for c in "'\"\\$`! \n\r\x01")),
        "rule": "values = every string of <= 3 characters over %r, every value starting with one of %r, and %d seeded random strings of 4-40 characters; forms = printf %%q, ${v@Q}, "
                "${v@A}, declare -p (scalar, indexed element, associative key+value; both also for a readonly exported variable, attributes included), export -p, set, alias, trap -p, set -x trace; each rendering is read by Quote.tla (word forms) and "
                "eval'ed in a fresh brush and a fresh bash; non-trivial = the value contains a character that needs quoting" % ("".join(ALPHA), "".join(LEAD), 300 if tier == "quick" else 2500),
        "values": len(vals), "word_form_records": len(word_records), "eval_round_trips": nevals, "exhaustive": True,
        "samples": [{"form": r0["form"], "value": r0["v"], "text": r0["text"]} for r0 in word_records[:: max(1, len(word_records) // 3)][:3]],
    }, assumptions=["values are valid UTF-8 without NUL, injected through the environment (no shell parsing on the way in)", "locale C.UTF-8"])


def known(v, form, val, text, sh=None):
    for f in v.findings:
        if f.get("status") != "known" or f.get("mode") != "class":
            continue
        if form in f.get("forms", []) and (not f.get("value_match") or re.search(f["value_match"], val)) and (not f.get("shell") or f.get("shell") == sh):
            v.known(f["id"], f["what"][:110])
            return True
    return False


def replay(path):
    with open(path) as f:
        c = json.load(f)
    build_harness()
    r = run_script("brush", PRODUCER, front="file", extra_env={"V": c["value"]}, timeout=30)
    print(r["out"].split("\0")[:8])
    print("re-run ./check C13 quick to judge")
    return 0
