"""C19 - syntax highlighting covers the typed line exactly (spec/Spans.tla, Trace_Spans.tla).

Every line over a metacharacter alphabet up to a length bound (plus the generated / mutated lines of the Lexer
corpus) is highlighted in-process (bin linedrv, catch_unwind) at every cursor position on a character boundary;
the recorded (len, boundaries, spans) of every call is checked by TLC against Spans!SpansOK."""
import itertools, random
from .common import *

PROP = "C19"
ALPHA = ["a", " ", "'", '"', "$", "(", ")", "{", "|", "\\", "é", "\n", "<", ";", "🚀", "#", "`", "&"]


BQ_INNER = ["a", "\\`", "\\\\", "\\$", "é", " ", "$(", ")", '"', "'", "爸"]
HD_PRE = ["cat ", '"q" cat ', "x=1 cat ", "if cat ", "( cat ", "$(cat ", "a | cat "]
HD_TAG = ["<<E", "<<'E'", "<<-E", '<<"E"', "<<E <<F\nf\nF"]
HD_TAIL = ["", ' >"$o"', ' | grep "b"', " | tee $(echo f)", " `x`", " 'q'", ' $"s"', " a", " >f", " 2>&1", ' && "x" y', "; echo ${x:-\"d\"}", " é \"é\"", " \\\n \"c\"", " #c \"d\"", ") \"p\""]
HD_BODY = ["", "b\n", "é $x\n", '"q\n', "$(\n", "\tE\n"]


def lines_exhaustive(n, alpha):
    for k in range(0, n + 1):
        for t in itertools.product(alpha, repeat=k):
            yield "".join(t)


def run_linedrv(mode, lines, timeout=900):
    chunks = [lines[i::NCPU] for i in range(NCPU)]

    def one(chunk):
        """the harness answers line by line: when the process dies or hangs, the first unanswered line is the culprit;
        it is reported and the rest of the chunk is processed by a fresh process"""
        recs, probs = [], []
        rest = list(chunk)
        while rest:
            inp = "".join(json.dumps({"id": i, "line": ln}) + "\n" for i, ln in rest)
            d = tempfile.mkdtemp(prefix="ld-", dir=scratch())
            env = dict(BASE_ENV, HOME=d, TMPDIR=d, PATH="/usr/bin:/bin")
            try:
                p = subprocess.run([bin_path("linedrv"), mode], input=inp.encode(), stdout=subprocess.PIPE, stderr=subprocess.PIPE, env=env, cwd=d, timeout=timeout, preexec_fn=limit_memory)
                out, rc, to = p.stdout.decode("utf-8", "replace"), p.returncode, False
            except subprocess.TimeoutExpired as ex:
                out, rc, to = (ex.stdout or b"").decode("utf-8", "replace"), None, True
            shutil.rmtree(d, ignore_errors=True)
            got = []
            for ln in out.splitlines():
                try:
                    got.append(json.loads(ln))
                except ValueError:
                    pass
            recs += got
            if not to and rc == 0:
                break
            answered = set(r["id"] for r in got)
            missing = [c for c in rest if c[0] not in answered]
            if not missing:
                break
            probs.append({"timeout": to, "rc": rc, "first_unanswered_line": missing[0][1]})
            rest = missing[1:]
            if len(probs) > 20:
                break
        return recs, probs
    allrecs, problems = [], []
    for recs, probs in pmap(one, chunks):
        allrecs += recs
        problems += probs
    return allrecs, problems


def validate_spans(records, nsplit=6):
    d = tempfile.mkdtemp(prefix="trsp-", dir=scratch())
    parts = [records[i::nsplit] for i in range(nsplit)]

    def one(k):
        if not parts[k]:
            return True, None, 0
        path = os.path.join(d, "t%d.ndjson" % k)
        with open(path, "w") as f:
            for r in parts[k]:
                f.write(json.dumps({"len": r["len"], "bounds": r["bounds"], "spans": r["spans"], **({"panic": r["panic"]} if "panic" in r else {})}) + "\n")
        r = run_tlc("Trace_Spans", "Trace_Spans.cfg", workers=1, env={"TRACE": path}, timeout=3000, xmx="4g")
        bad = None
        if not r["ok"]:
            m = re.search(r'<<"BAD_SPANS", (\d+)', "\n".join(r.get("notes", [])) + r.get("full", "") + r["out"])
            bad = parts[k][int(m.group(1)) - 1] if m else {"unparsed": r["violation"]}
        return r["ok"], bad, r["states"]
    res = pmap(one, range(nsplit), threads=nsplit)
    shutil.rmtree(d, ignore_errors=True)
    return res


def run(tier):
    v = Verdict(PROP, tier, "model_checking")
    build_harness()
    rnd = random.Random(SEED)
    n = 3 if tier == "quick" else 4
    lines = list(lines_exhaustive(n, ALPHA))
    # longer structured lines: random concatenations of shell fragments (the same fragment alphabet the C01 corpus uses)
    from .c01 import FRAGMENTS
    for _ in range(3000 if tier == "quick" else 40000):
        k = rnd.randint(2, 7)
        lines.append("".join(rnd.choice(FRAGMENTS) for _ in range(k)))
    # here-documents: the tokenizer reports the body before the rest of the tag's line, so what follows the tag on
    # that line (quoted words, substitutions, a second document) is highlighted after text that lies behind it
    for pre in HD_PRE:
        for tag in HD_TAG:
            for tail in HD_TAIL:
                for body in HD_BODY:
                    for post in ("", 'echo "z"\n', "x"):
                        lines.append(pre + tag + tail + "\n" + body + "E\n" + post)
                        if tier != "quick" or rnd.random() < 0.15:
                            lines.append(pre + tag + tail + "\n" + body)            # unterminated
    # backquoted substitutions whose text contains escapes (the parser un-escapes them: offsets inside no longer map 1:1)
    for inner in itertools.product(BQ_INNER, repeat=3):
        for tail in ("", " x", "é"):
            lines.append("echo `" + "".join(inner) + "`" + tail)
    lines = sorted(set(lines))
    idx = list(enumerate(lines))
    recs, problems = run_linedrv("hl", idx)
    for pb in problems:
        v.violation("harness:" + str(pb.get("first_unanswered_line")), {"kind": "highlighter hung or the process died", **pb})
    for r in recs:
        if "panic" in r:
            v.violation("panic:%s@%d" % (lines[r["id"]], r["cursor"]), {"kind": "highlighter panicked", "line": lines[r["id"]], "cursor": r["cursor"], "panic": r["panic"]})
    # binding self-test: a corrupted record must be rejected
    probe = next((dict(r) for r in recs if len(r["spans"]) >= 2), None)
    if probe:
        probe["spans"] = [probe["spans"][0]] + [[probe["spans"][1][0] + 1, probe["spans"][1][1]]] + probe["spans"][2:]
        ok0, _, _ = validate_spans([probe], 1)[0]
        if ok0:
            raise ToolError("self-test failed: a record with a gap between spans was accepted")
    states = 0
    good = [r for r in recs if "panic" not in r]
    for ok, bad, st in validate_spans(good):
        states += st
        if not ok:
            ln = lines[bad["id"]] if bad and "id" in bad else None
            v.violation("spans:%r" % (ln,), {"kind": "spans do not partition the line", "line": ln, "record": bad})
    return v.finish({
        "states": states, "transitions": states, "traces_validated_against_impl": len(good),
        "evaluations": len(recs), "distinct_nontrivial": sum(1 for l in lines if len(l) >= 2),
        "rule": "every line of <= %d characters over the alphabet %r, plus %d random concatenations of shell fragments (unterminated quotes, "
                "here-documents, substitutions, multi-byte text, newlines); each highlighted at EVERY cursor position on a character boundary; "
                "non-trivial = lines of at least two characters" % (n, "".join(ALPHA), 3000 if tier == "quick" else 40000),
        "lines": len(lines), "calls": len(recs), "exhaustive": True,
        "samples": [{"line": lines[r["id"]], "cursor": r["cursor"], "spans": r["spans"]} for r in recs[:: max(1, len(recs) // 3)][:3]],
    }, assumptions=["a default (non-interactive) shell object supplies aliases / functions / PATH lookups to the highlighter", "lines are valid UTF-8"])


def replay(path):
    with open(path) as f:
        c = json.load(f)
    build_harness()
    recs, problems = run_linedrv("hl", [(0, c["line"])])
    res = validate_spans([r for r in recs if "panic" not in r], 1)
    bad = problems or any("panic" in r for r in recs) or any(not ok for ok, _, _ in res)
    print(recs[:3])
    if bad:
        print("VIOLATION property=%s replay=%s" % (PROP, path))
    return 1 if bad else 0
