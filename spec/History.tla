------------------------------ MODULE History ------------------------------
(* Command history (C20): brush-core/src/history.rs (add / flush / import / remove_nth_item /
   clear), shell/history.rs (load_history, save_history, add_to_history), builtins/history.rs
   (-a -w -d -c), interactive_shell.rs (save on exit).

   sess[s]   a shell session: alive, items = Seq([id, kind, dirty, ts]), tsOn (HISTTIMEFORMAT set)
   file      the history file, a sequence of lines [k, id]:
               k = "cmd"  an ordinary command line     k = "ts"   a `#<epoch>` line written by flush
               k = "hash" a recorded command that starts with `#` (not a number)
               k = "num"  a recorded command of the form `#<digits>` (reads back as a timestamp!)
   rec[s]    ghost: ids of the ordinary commands s recorded and did not delete, in order
   trunc     ghost: ids removed from the file by some session's `history -w`
   hist      observation only (replay): every action with the abstract state it produced

   Command kinds offered to Add: "a" plain, "pad" blank-padded (recorded trimmed), "hash", "num",
   "empty" (blank only: discarded).  Each recorded command gets a fresh id, so every command is
   distinguishable in the file.

   `history -w` (WriteAll) is outside the operation set C20 quantifies over.  It is modelled as the code
   (and bash 5.2, which the repository's suite pins) behaves: it rewrites the file from the session's list
   and leaves the items marked unsaved, so a later save appends them again.  WithWrite = FALSE removes the
   action (the configuration in which the exactly-once properties are checked); the replay configurations
   include it, so its file effect is still compared with the implementation step by step.          *)
EXTENDS Naturals, Sequences, FiniteSets, TLC, Json

CONSTANTS Sessions, MaxOps, Kinds, WithWrite, Emit

VARIABLES sess, file, rec, next, trunc, nops, act, hist
vars == <<sess, file, rec, next, trunc, nops, act, hist>>
core == <<sess, file, rec, next, trunc, nops, act>>          \* VIEW for exhaustive checking

Item(n, k, d, t) == [id |-> n, kind |-> k, dirty |-> d, ts |-> t]
Dead == [alive |-> FALSE, items |-> <<>>, tsOn |-> FALSE]
LineKind(k) == CASE k = "hash" -> "hash" [] k = "num" -> "num" [] OTHER -> "cmd"

RECURSIVE Import(_, _)            \* History::import: `pend` = a timestamp line is pending
Import(lines, pend) ==
  IF lines = <<>> THEN <<>>
  ELSE LET l == Head(lines) IN
       CASE l.k \in {"ts", "num"} -> Import(Tail(lines), TRUE)       \* `#<digits>`: parsed as a timestamp
         [] l.k = "hash"          -> Import(Tail(lines), FALSE)      \* other comment: dropped, clears the pending one
         [] OTHER                 -> <<Item(l.id, "a", FALSE, pend)>> \o Import(Tail(lines), FALSE)

RECURSIVE Lines(_, _, _)          \* History::flush body
Lines(items, onlyDirty, withTs) ==
  IF items = <<>> THEN <<>>
  ELSE LET it == Head(items) IN
       (IF onlyDirty /\ ~it.dirty THEN <<>>
        ELSE (IF withTs /\ it.ts THEN <<[k |-> "ts", id |-> it.id]>> ELSE <<>>) \o <<[k |-> LineKind(it.kind), id |-> it.id]>>)
       \o Lines(Tail(items), onlyDirty, withTs)

Clean(items) == [i \in 1..Len(items) |-> [items[i] EXCEPT !.dirty = FALSE]]
Remove(seq, i) == SubSeq(seq, 1, i-1) \o SubSeq(seq, i+1, Len(seq))
Without(seq, n) == SelectSeq(seq, LAMBDA x : x # n)

\* projection compared with the implementation after every step
Proj(ss, f) == [file |-> [i \in 1..Len(f) |-> <<f[i].k, f[i].id>>],
                sess |-> [s \in Sessions |-> IF ss[s].alive
                                            THEN [i \in 1..Len(ss[s].items) |-> <<ss[s].items[i].id, ss[s].items[i].kind, ss[s].items[i].dirty, ss[s].items[i].ts>>]
                                            ELSE <<>>],
                alive |-> [s \in Sessions |-> ss[s].alive]]

Init == /\ sess = [s \in Sessions |-> Dead] /\ file = <<>>
        /\ rec = [s \in Sessions |-> <<>>] /\ next = 1 /\ trunc = {} /\ nops = 0 /\ act = <<"init">> /\ hist = <<>>

Step(a) == /\ nops < MaxOps /\ nops' = nops + 1 /\ act' = a
Obs(a) == hist' = IF Emit THEN Append(hist, [a |-> a, st |-> Proj(sess', file')]) ELSE hist

NewSession(s) == /\ ~sess[s].alive /\ Step(<<"new", s>>)
                 /\ sess' = [sess EXCEPT ![s] = [alive |-> TRUE, items |-> Import(file, FALSE), tsOn |-> FALSE]]
                 /\ rec' = [rec EXCEPT ![s] = <<>>] /\ UNCHANGED <<file, next, trunc>> /\ Obs(<<"new", s>>)
Add(s, kd) ==    /\ sess[s].alive /\ Step(<<"add", s, kd, next>>)          \* Shell::add_to_history
                 /\ IF kd = "empty"
                    THEN UNCHANGED <<sess, rec>>                           \* trimmed to nothing: discarded
                    ELSE /\ sess' = [sess EXCEPT ![s].items = Append(@, Item(next, IF kd = "pad" THEN "a" ELSE kd, TRUE, TRUE))]
                         /\ rec' = IF kd \in {"a", "pad"} THEN [rec EXCEPT ![s] = Append(@, next)] ELSE rec
                 /\ next' = next + 1 /\ UNCHANGED <<file, trunc>> /\ Obs(<<"add", s, kd, next>>)
Save(s) ==       /\ sess[s].alive /\ Step(<<"save", s>>)                   \* save_history / history -a
                 /\ file' = file \o Lines(sess[s].items, TRUE, sess[s].tsOn)
                 /\ sess' = [sess EXCEPT ![s].items = Clean(@)] /\ UNCHANGED <<rec, next, trunc>> /\ Obs(<<"save", s>>)
WriteAll(s) ==   /\ WithWrite /\ sess[s].alive /\ Step(<<"write", s>>)     \* history -w
                 /\ file' = Lines(sess[s].items, FALSE, sess[s].tsOn)
                 /\ sess' = sess                                           \* the dirty flags stay set
                 /\ trunc' = trunc \cup ({file[i].id : i \in {j \in 1..Len(file) : file[j].k = "cmd"}} \ {sess[s].items[i].id : i \in 1..Len(sess[s].items)})
                 /\ UNCHANGED <<rec, next>> /\ Obs(<<"write", s>>)
EndSession(s) == /\ sess[s].alive /\ Step(<<"end", s>>)                    \* interactive exit: save, drop
                 /\ file' = file \o Lines(sess[s].items, TRUE, sess[s].tsOn)
                 /\ sess' = [sess EXCEPT ![s] = Dead] /\ UNCHANGED <<rec, next, trunc>> /\ Obs(<<"end", s>>)
Delete(s, i) ==  /\ sess[s].alive /\ i \in 1..Len(sess[s].items) /\ Step(<<"del", s, i>>)
                 /\ rec' = [rec EXCEPT ![s] = Without(@, sess[s].items[i].id)]
                 /\ sess' = [sess EXCEPT ![s].items = Remove(@, i)] /\ UNCHANGED <<file, next, trunc>> /\ Obs(<<"del", s, i>>)
Clear(s) ==      /\ sess[s].alive /\ Step(<<"clear", s>>)
                 /\ sess' = [sess EXCEPT ![s].items = <<>>] /\ rec' = [rec EXCEPT ![s] = <<>>]
                 /\ UNCHANGED <<file, next, trunc>> /\ Obs(<<"clear", s>>)
ToggleTs(s) ==   /\ sess[s].alive /\ Step(<<"ts", s>>)
                 /\ sess' = [sess EXCEPT ![s].tsOn = ~@] /\ UNCHANGED <<file, rec, next, trunc>> /\ Obs(<<"ts", s>>)

Next == \E s \in Sessions : \/ NewSession(s) \/ (\E kd \in Kinds : Add(s, kd)) \/ Save(s) \/ WriteAll(s) \/ EndSession(s)
                            \/ Clear(s) \/ ToggleTs(s) \/ \E i \in 1..MaxOps : Delete(s, i)
Spec == Init /\ [][Next]_vars

\* ---------------- properties (C20) ----------------
CmdLines == SelectSeq(file, LAMBDA l : l.k = "cmd")
FileIds == [i \in 1..Len(CmdLines) |-> CmdLines[i].id]
Pos(n) == {i \in 1..Len(FileIds) : FileIds[i] = n}

\* every recorded command appears at most once
NoDup == \A n \in 1..(next-1) : Cardinality(Pos(n)) <= 1
\* right after a save by s, everything s recorded (and did not delete) is in the file
SavedPresent == (act[1] \in {"save", "write"}) =>
                  \A i \in 1..Len(rec[act[2]]) : rec[act[2]][i] \in trunc \/ Pos(rec[act[2]][i]) # {}
\* one session's commands keep their recording order in the file
InOrder == \A s \in Sessions : \A i, j \in 1..Len(rec[s]) :
             (i < j /\ Pos(rec[s][i]) # {} /\ Pos(rec[s][j]) # {}) =>
               \A p \in Pos(rec[s][i]) : \A q \in Pos(rec[s][j]) : p < q
\* a timestamp line is always directly followed by the line of the command it belongs to
TsAttached == \A i \in 1..Len(file) : file[i].k = "ts" => (i < Len(file) /\ file[i+1].k # "ts" /\ file[i+1].id = file[i].id)
\* reload yields exactly the file's ordinary commands, in order, none of them dirty
ReloadEq == LET it == Import(file, FALSE) IN
              /\ Len(it) = Len(FileIds) /\ \A i \in 1..Len(it) : it[i].id = FileIds[i] /\ ~it[i].dirty
\* a reloaded ordinary command carries a timestamp iff a timestamp line (or a `#<digits>` command) precedes it
\* saving (either way) and then saving again without a new command adds nothing
SaveIdemAct == [][ (act[1] \in {"save", "write"} /\ act'[1] = "save" /\ act[2] = act'[2]) => file' = file ]_vars
TypeOK == nops <= MaxOps /\ next <= MaxOps + 1

Done == nops = MaxOps
EmitInv == (Emit /\ Done) => PrintT(<<"CASE", ToJson([hist |-> hist])>>)
=============================================================================
