\* C15a: construct-in-construct chains with $LINENO probes, for replay through every delivery mode
CONSTANTS
  Depth = 2
  MaxNodes = 9
  Bushy = FALSE
  LeavesFull <- C15_Full
  LeavesLite <- C15_Lite
  Constructs <- C15_Constructs
  CaseShapes <- C15_Cases
INIT Init
NEXT Next
INVARIANT Emit
CHECK_DEADLOCK FALSE
