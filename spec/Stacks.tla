------------------------------- MODULE Stacks -------------------------------
(* Internal stacks of one shell object (C18): the variable-scope stack (brush-core/src/env.rs
   push_scope / pop_scope, ScopeGuard) and the call stack (callstack.rs push_* / pop), as they are
   pushed and popped by the command dispatch paths of commands.rs / interp.rs:

     execute_command      ScopeGuard pushes a `command` scope, temporary assignments are applied (an error
                          drops the guard = pop), the guard is detached and post_execute pops the scope on
                          EVERY path: builtin in the parent shell, function call, external command (spawned
                          or failed to spawn), command not found
     invoke_shell_function   definition-time redirections may fail BEFORE enter_function (no frame, no local
                          scope yet); enter_function pushes a `function` frame and a `local` scope (or fails
                          on the recursion limit before pushing); leave_function pops both, after the body has
                          completed whether it succeeded, failed, or returned/broke out
     run_string / eval / source / trap handler / -c   push their frame, run a Program, pop the frame

   progs is the stack of running Programs with the depths the stacks had when each began: at every command
   boundary of a Program (CmdDone) and at its end the depths must be back to those values - that is the
   "no leak" property, checked by TLC for every dispatch path and fault point (MC_Stacks) and, by trace
   validation (Trace_Stacks), on every recorded execution of the real shell.

   todo is the continuation of stack operations the dispatch paths still have to perform (innermost first). *)
EXTENDS Naturals, Sequences, TLC

CONSTANTS MaxDepth     \* nesting bound for the exhaustive exploration (function bodies calling commands)

VARIABLES scopes, frames, progs, todo, depth
vars == <<scopes, frames, progs, todo, depth>>

Last(s) == s[Len(s)]
Front(s) == SubSeq(s, 1, Len(s) - 1)

\* ---- the primitive operations (these are the events the hooks record)
PushScope(k) == scopes' = Append(scopes, k) /\ UNCHANGED <<frames, progs>>
PopScope(k) == scopes # <<>> /\ Last(scopes) = k /\ scopes' = Front(scopes) /\ UNCHANGED <<frames, progs>>
PushFrame(k) == frames' = Append(frames, k) /\ UNCHANGED <<scopes, progs>>
PopFrame == frames # <<>> /\ frames' = Front(frames) /\ UNCHANGED <<scopes, progs>>
ProgBegin == progs' = Append(progs, <<Len(scopes), Len(frames)>>) /\ UNCHANGED <<scopes, frames>>
Balanced == progs # <<>> /\ Last(progs) = <<Len(scopes), Len(frames)>>
CmdDone == Balanced /\ UNCHANGED <<scopes, frames, progs>>
ProgEnd == Balanced /\ progs' = Front(progs) /\ UNCHANGED <<scopes, frames>>

\* ---- dispatch paths as sequences of primitive operations; "body" = a nested list of commands
Op(o, k) == [o |-> o, k |-> k]
Paths == {
  \* simple command, no function: [temp assignment error] | builtin | external ok | spawn error | not found
  <<Op("pushS", "command"), Op("popS", "command")>>,
  \* function call: ok / body error / return : enter, body, leave, post_execute
  <<Op("pushS", "command"), Op("pushF", "function"), Op("pushS", "local"), Op("body", ""), Op("popS", "local"), Op("popF", ""), Op("popS", "command")>>,
  \* function call refused before enter_function (definition-time redirect error, recursion limit)
  <<Op("pushS", "command"), Op("popS", "command")>>,
  \* eval / source / trap handler: frame, nested program, pop
  <<Op("pushS", "command"), Op("pushF", "eval"), Op("prog", ""), Op("popF", ""), Op("popS", "command")>>,
  <<Op("pushS", "command"), Op("pushF", "script"), Op("prog", ""), Op("popF", ""), Op("popS", "command")>>,
  <<Op("pushF", "trap"), Op("prog", ""), Op("popF", "")>>,
  \* compound command / assignment only: no stack effect
  <<>> }

Init == scopes = <<"global">> /\ frames = <<"cmdstr">> /\ progs = <<<<1, 1>>>> /\ todo = <<>> /\ depth = 0

\* the current Program starts its next top-level command along some dispatch path
AtCmdStart == IF todo = <<>> THEN TRUE ELSE Head(todo).o \in {"body", "inprog"}     \* (IF: TLC splits \/ in actions)
AtBoundary == IF todo = <<>> THEN TRUE ELSE Head(todo).o = "inprog"
StartCmd == /\ AtCmdStart
            /\ Len(SelectSeq(todo, LAMBDA x : x.o \in {"body", "inprog"})) < MaxDepth     \* nesting bound
            /\ \E p \in Paths : todo' = p \o todo
            /\ UNCHANGED <<scopes, frames, progs, depth>>
Step == /\ todo # <<>>
        /\ LET h == Head(todo) IN
           CASE h.o = "pushS" -> PushScope(h.k) /\ todo' = Tail(todo) /\ UNCHANGED depth
             [] h.o = "popS"  -> PopScope(h.k) /\ todo' = Tail(todo) /\ UNCHANGED depth
             [] h.o = "pushF" -> PushFrame(h.k) /\ todo' = Tail(todo) /\ UNCHANGED depth
             [] h.o = "popF"  -> PopFrame /\ todo' = Tail(todo) /\ UNCHANGED depth
             [] h.o = "prog"  -> ProgBegin /\ todo' = <<Op("inprog", "")>> \o Tail(todo) /\ UNCHANGED depth
             [] h.o = "inprog" -> ProgEnd /\ todo' = Tail(todo) /\ UNCHANGED depth       \* the nested program ends
             [] h.o = "body"  -> todo' = Tail(todo) /\ UNCHANGED <<scopes, frames, progs, depth>>   \* the body ends
\* a command of the current program completed: its path has been fully performed
Boundary == /\ AtBoundary /\ CmdDone /\ UNCHANGED <<todo, depth>>
Next == StartCmd \/ Step \/ Boundary
Spec == Init /\ [][Next]_vars

\* ---------------- properties (C18) ----------------
\* whenever a command of a Program has completed, the stacks are as deep as when that Program began
NoLeak == AtBoundary => Balanced
\* a pop always finds the scope kind it expects (pop_scope's own check never fires)
PopsMatch == (todo # <<>> /\ Head(todo).o = "popS") => (scopes # <<>> /\ Last(scopes) = Head(todo).k)
TypeOK == Len(scopes) <= 2 * MaxDepth + 2 /\ Len(frames) <= MaxDepth + 2
=============================================================================
