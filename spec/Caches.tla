-------------------------------- MODULE Caches --------------------------------
(* Parse caches are transparent (C15, third part): brush-parser/src/tokenizer.rs TOKENIZE_CACHE, word.rs cacheable_parse,
   brush-core/src/shell/parsing.rs parse_string_impl (64-entry caches keyed by (text, options)), arithmetic.rs (keyed by text;
   arithmetic parsing takes no options).

   Several entry points (KINDS: word grammar, here-document-body grammar, parameter, brace, assignment ...) read the same texts;
   a result is a function of (kind, text, options) and a memo shared between kinds must carry the kind in its key.
   cache   LRU list of [key, val], most recent first, at most Capacity entries
   hist    the lookups made so far: <<kind, text, opts>> or "flood" (enough other lookups to evict everything)
   A lookup returns the cached value when its KEY is present, else parses, stores and returns.
   Transparent:  every lookup returns Parse(text, opts) - what a process that never parsed anything before would return.
   Parse is abstract: its result may depend on every option, so results for different (text, opts) are different values.
   DEV KeyOmitsOptions: the key is (kind, text).   DEV KeyOmitsKind: the key is (text, options).                                                              *)
EXTENDS Naturals, Sequences, FiniteSets, TLC

CONSTANTS Kinds, Texts, Opts, Capacity, MaxHist, DEV

VARIABLES cache, hist, last
vars == <<cache, hist, last>>

Parse(k, t, o) == <<"tree-of", k, t, o>>
Key(k, t, o) == <<IF "KeyOmitsKind" \in DEV THEN "any" ELSE k, t, IF "KeyOmitsOptions" \in DEV THEN "any" ELSE o>>
Find(k) == {i \in 1..Len(cache) : cache[i].key = k}
Init == cache = <<>> /\ hist = <<>> /\ last = [k |-> "", t |-> "", o |-> "", r |-> Parse("", "", "")]
Lookup(k, t, o) ==
  /\ Len(hist) < MaxHist
  /\ hist' = Append(hist, <<k, t, o>>)
  /\ LET ky == Key(k, t, o)  F == Find(ky) IN
     IF F # {}
     THEN LET i == CHOOSE j \in F : TRUE IN
          /\ last' = [k |-> k, t |-> t, o |-> o, r |-> cache[i].val]
          /\ cache' = <<cache[i]>> \o SubSeq(cache, 1, i - 1) \o SubSeq(cache, i + 1, Len(cache))
     ELSE /\ last' = [k |-> k, t |-> t, o |-> o, r |-> Parse(k, t, o)]
          /\ cache' = SubSeq(<<[key |-> ky, val |-> Parse(k, t, o)]>> \o cache, 1, IF Len(cache) + 1 > Capacity THEN Capacity ELSE Len(cache) + 1)
Flood == /\ Len(hist) < MaxHist /\ hist # <<>> /\ hist[Len(hist)] # <<"flood">>
         /\ hist' = Append(hist, <<"flood">>) /\ cache' = <<>> /\ UNCHANGED last
Next == (\E k \in Kinds, t \in Texts, o \in Opts : Lookup(k, t, o)) \/ Flood
Spec == Init /\ [][Next]_vars

Transparent == last.r = Parse(last.k, last.t, last.o)
Bounded == Len(cache) <= Capacity
=============================================================================
