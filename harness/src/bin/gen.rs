//! `gen N [delay_ms] [u]`: writes exactly N bytes of numbered 8-byte lines ("0000001\n"...) to stdout,
//! optionally sleeping delay_ms before starting. Exits 0; dies of SIGPIPE like any filter.
use std::io::Write;
fn main() {
    unsafe {
        // default SIGPIPE disposition (Rust ignores it): behave like a C filter
        libc_signal();
    }
    let a: Vec<String> = std::env::args().collect();
    let n: usize = a.get(1).and_then(|s| s.parse().ok()).unwrap_or(0);
    if let Some(ms) = a.get(2).and_then(|s| s.parse::<u64>().ok()) {
        std::thread::sleep(std::time::Duration::from_millis(ms));
    }
    let mut out = std::io::BufWriter::with_capacity(1 << 16, std::io::stdout().lock());
    if a.get(3).map(String::as_str) == Some("u") {
        // multi-byte payload: "x" then 2-byte characters, written in 64 KiB slices that ignore character
        // boundaries (like cat does), so that every slice boundary falls inside a character
        let mut data = Vec::with_capacity(n + 2);
        if n > 0 {
            data.push(b'x');
        }
        while data.len() + 2 <= n {
            data.extend_from_slice("é".as_bytes());
        }
        if data.len() < n {
            data.push(b'y');
        }
        drop(out);
        let mut raw = std::io::stdout().lock();
        for chunk in data.chunks(1 << 16) {
            if raw.write_all(chunk).is_err() || raw.flush().is_err() {
                std::process::exit(141);
            }
        }
        return;
    }
    let mut written = 0usize;
    let mut k = 1u64;
    while written < n {
        let line = format!("{k:07}\n");
        let take = std::cmp::min(line.len(), n - written);
        if out.write_all(&line.as_bytes()[..take]).is_err() {
            std::process::exit(141);
        }
        written += take;
        k += 1;
    }
    if out.flush().is_err() {
        std::process::exit(141);
    }
}
unsafe extern "C" {
    fn signal(signum: i32, handler: usize) -> usize;
}
unsafe fn libc_signal() {
    unsafe { signal(13, 0) };
}
