-------------------------------- MODULE Glob --------------------------------
(* Shell pattern matching (C08; used by C04-C06): brush-parser/src/pattern.rs,
   brush-core/src/patterns.rs, regex.rs - the semantics bash documents and implements.

   A pattern is a sequence of TOKENS (strings): single characters, the composite bracket-class names
   "[:alpha:]" "[:digit:]" "[:upper:]" "[:lower:]" "[:space:]" "[:punct:]" (meaningful inside a bracket expression), and
   with extglob the group openers "?(" "*(" "+(" "@(" "!(" .  The driver concatenates the tokens to get
   the pattern text; characters are written as themselves except NL (newline) and U (a two-byte
   character, e-acute).  A subject is a sequence of characters.

   Items(p, eg)   pattern tokens -> AST items (eg = extglob on)
     lit c | any | star | set(neg, chars, classes) | ext(op, alts)
   Match(p, s, eg, nc)   whole-string match (nc = nocasematch)                                   *)
EXTENDS Naturals, Sequences, FiniteSets, TLC

\* ------------------------------------------------------------------ the alphabet and its order
Ord(c) == CASE c = "NL" -> 10 [] c = " " -> 32 [] c = "!" -> 33 [] c = "(" -> 40 [] c = ")" -> 41 [] c = "*" -> 42
            [] c = "+" -> 43 [] c = "-" -> 45 [] c = "." -> 46 [] c = "/" -> 47 [] c = "0" -> 48 [] c = "1" -> 49 [] c = "?" -> 63 [] c = "@" -> 64
            [] c = "A" -> 65 [] c = "B" -> 66 [] c = "C" -> 67 [] c = "W" -> 87 [] c = "X" -> 88 [] c = "[" -> 91 [] c = "\\" -> 92 [] c = "]" -> 93 [] c = "^" -> 94 [] c = "_" -> 95
            [] c = "a" -> 97 [] c = "b" -> 98 [] c = "c" -> 99 [] c = "|" -> 124 [] c = "V" -> 201 [] c = "U" -> 233 [] OTHER -> 255
Chars == {"NL", " ", "!", "(", ")", "*", "+", "-", ".", "/", "0", "1", "?", "@", "A", "B", "C", "W", "X", "[", "\\", "]", "^", "_", "a", "b", "c", "|", "U", "V"}
Range(lo, hi) == {c \in Chars : Ord(lo) <= Ord(c) /\ Ord(c) <= Ord(hi)}
ClassNames == {"[:alpha:]", "[:digit:]", "[:upper:]", "[:lower:]", "[:space:]", "[:punct:]", "[:alnum:]"}
InClass(c, cl) == CASE cl = "[:alpha:]" -> c \in {"a", "b", "c", "A", "B", "C", "W", "X", "U", "V"}
                    [] cl = "[:digit:]" -> c \in {"0", "1"}
                    [] cl = "[:alnum:]" -> c \in {"a", "b", "c", "A", "B", "C", "W", "X", "U", "V", "0", "1"}
                    [] cl = "[:upper:]" -> c \in {"A", "B", "C", "W", "X", "V"}
                    [] cl = "[:lower:]" -> c \in {"a", "b", "c", "U"}
                    [] cl = "[:space:]" -> c \in {" ", "NL"}
                    [] cl = "[:punct:]" -> c \in {"!", "(", ")", "*", "+", "-", ".", "/", "?", "@", "[", "\\", "]", "^", "_", "|"}
                    [] OTHER -> FALSE
Fold(c) == CASE c = "A" -> "a" [] c = "B" -> "b" [] c = "C" -> "c" [] c = "V" -> "U" [] OTHER -> c         \* case folding (ASCII letters of the alphabet)
ExtOpeners == {"?(", "*(", "+(", "@(", "!("}

\* ------------------------------------------------------------------ bracket expressions
\* scanning starts right after '['; result [ok, neg, set, cls, next]
RECURSIVE BrLoop(_, _, _, _, _, _)
BrLoop(p, i, first, neg, acc, cls) ==
  IF i > Len(p) THEN [ok |-> FALSE, neg |-> neg, set |-> {}, cls |-> {}, next |-> 0]
  ELSE IF p[i] = "]" /\ ~first THEN [ok |-> TRUE, neg |-> neg, set |-> acc, cls |-> cls, next |-> i + 1]
  ELSE IF p[i] \in ClassNames THEN BrLoop(p, i + 1, FALSE, neg, acc, cls \cup {p[i]})
  ELSE
    LET esc == p[i] = "\\" /\ i + 1 <= Len(p)
        c   == IF esc THEN p[i+1] ELSE p[i]
        j   == IF esc THEN i + 2 ELSE i + 1
        isRange == j + 1 <= Len(p) /\ p[j] = "-" /\ p[j+1] # "]" /\ p[j+1] \notin ClassNames
        esc2 == isRange /\ p[j+1] = "\\" /\ j + 2 <= Len(p)
        hi  == IF esc2 THEN p[j+2] ELSE IF isRange THEN p[j+1] ELSE c
        nxt == IF esc2 THEN j + 3 ELSE IF isRange THEN j + 2 ELSE j
    IN BrLoop(p, nxt, FALSE, neg, acc \cup (IF isRange THEN Range(c, hi) ELSE {c}), cls)
Bracket(p, i) ==
  IF i <= Len(p) /\ p[i] \in {"!", "^"} THEN BrLoop(p, i + 1, TRUE, TRUE, {}, {})
  ELSE BrLoop(p, i, TRUE, FALSE, {}, {})

\* ------------------------------------------------------------------ pattern tokens -> items
Lit(c) == [k |-> "lit", c |-> c, neg |-> FALSE, set |-> {}, cls |-> {}, op |-> "", alts |-> <<>>]
Node(k) == [k |-> k, c |-> "", neg |-> FALSE, set |-> {}, cls |-> {}, op |-> "", alts |-> <<>>]

\* ParseSeq(p, i, eg, inGroup): items from position i up to (not including) an unescaped "|" or ")" when inGroup,
\* or to the end; result [items, next]
RECURSIVE ParseSeq(_, _, _, _), ParseAlts(_, _, _)
ParseAlts(p, i, eg) ==        \* after a group opener: alternatives separated by "|" up to ")"; result [ok, alts, next]
  LET a == ParseSeq(p, i, eg, TRUE) IN
  IF a.next > Len(p) THEN [ok |-> FALSE, alts |-> <<>>, next |-> 0]
  ELSE IF p[a.next] = ")" THEN [ok |-> TRUE, alts |-> <<a.items>>, next |-> a.next + 1]
  ELSE LET r == ParseAlts(p, a.next + 1, eg) IN
       IF r.ok THEN [ok |-> TRUE, alts |-> <<a.items>> \o r.alts, next |-> r.next] ELSE r
ParseSeq(p, i, eg, inGroup) ==
  IF i > Len(p) THEN [items |-> <<>>, next |-> i]
  ELSE IF inGroup /\ p[i] \in {"|", ")"} THEN [items |-> <<>>, next |-> i]
  ELSE
    LET one ==
      CASE p[i] = "\\" -> IF i + 1 <= Len(p) THEN [it |-> Lit(p[i+1]), next |-> i + 2] ELSE [it |-> Lit("\\"), next |-> i + 1]
        [] eg /\ p[i] \in ExtOpeners ->
             LET g == ParseAlts(p, i + 1, eg) IN
             IF g.ok THEN [it |-> [Node("ext") EXCEPT !.op = p[i], !.alts = g.alts], next |-> g.next]
             ELSE [it |-> Lit(p[i]), next |-> i + 1]          \* not reached for well-defined patterns
        [] p[i] = "*"  -> [it |-> Node("star"), next |-> i + 1]
        [] p[i] = "?"  -> [it |-> Node("any"), next |-> i + 1]
        [] p[i] = "["  -> LET b == Bracket(p, i + 1) IN
                          IF b.ok THEN [it |-> [Node("set") EXCEPT !.neg = b.neg, !.set = b.set, !.cls = b.cls], next |-> b.next]
                          ELSE [it |-> Lit("["), next |-> i + 1]
        [] OTHER       -> [it |-> Lit(p[i]), next |-> i + 1]
        rest == ParseSeq(p, one.next, eg, inGroup)
    IN [items |-> <<one.it>> \o rest.items, next |-> rest.next]
Items(p, eg) == ParseSeq(p, 1, eg, FALSE).items

\* ------------------------------------------------------------------ matching
CharEq(a, b, nc) == IF nc THEN Fold(a) = Fold(b) ELSE a = b
\* nocasematch folds the explicit members and ranges of a bracket expression; class tests ([:upper:] ...) see the
\* character as it is (bash 5.2)
InSet(x, c, nc) == \/ (\E cl \in x.cls : InClass(c, cl))
                   \/ IF nc THEN \E d \in Chars : Fold(d) = Fold(c) /\ d \in x.set ELSE c \in x.set

\* M(it, i, s, j, e, nc): items it[i..] match exactly s[j..e-1]
RECURSIVE M(_, _, _, _, _, _), Rep(_, _, _, _, _)
AltHit(alts, s, j, e, nc) == \E a \in 1..Len(alts) : M(alts[a], 1, s, j, e, nc)
Rep(alts, s, j, e, nc) ==      \* zero or more alternatives cover s[j..e-1]; each round consumes at least one character
  j = e \/ \E mid \in (j+1)..e : AltHit(alts, s, j, mid, nc) /\ Rep(alts, s, mid, e, nc)
M(it, i, s, j, e, nc) ==
  IF i > Len(it) THEN j = e
  ELSE LET x == it[i] IN
    CASE x.k = "star" -> \E m \in j..e : M(it, i + 1, s, m, e, nc)
      [] x.k = "any"  -> j < e /\ M(it, i + 1, s, j + 1, e, nc)
      [] x.k = "lit"  -> j < e /\ CharEq(s[j], x.c, nc) /\ M(it, i + 1, s, j + 1, e, nc)
      [] x.k = "set"  -> j < e /\ (InSet(x, s[j], nc) # x.neg) /\ M(it, i + 1, s, j + 1, e, nc)
      [] x.k = "ext"  ->
           \E m \in j..e : /\ M(it, i + 1, s, m, e, nc)
                           /\ CASE x.op = "@(" -> AltHit(x.alts, s, j, m, nc)
                                [] x.op = "?(" -> j = m \/ AltHit(x.alts, s, j, m, nc)
                                [] x.op = "*(" -> Rep(x.alts, s, j, m, nc)
                                [] x.op = "+(" -> \E mid \in j..m : AltHit(x.alts, s, j, mid, nc) /\ Rep(x.alts, s, mid, m, nc)
                                [] x.op = "!(" -> ~AltHit(x.alts, s, j, m, nc)
Match(p, s, eg, nc) == M(Items(p, eg), 1, s, 1, Len(s) + 1, nc)

\* ------------------------------------------------------------------ which pattern texts have a defined meaning
\* POSIX leaves these unspecified and bash follows the accidents of its scanner; they are not judged:
\*  a pattern ending in an unescaped backslash; an unterminated '[' ; a range whose end precedes its start;
\*  a class name outside a bracket expression; a '-' range endpoint that is itself a bracket-special token.
RECURSIVE WD(_, _, _, _)
WD(p, i, eg, depth) ==
  IF i > Len(p) THEN depth = 0
  ELSE CASE p[i] = "\\" -> i + 1 <= Len(p) /\ p[i+1] \notin ClassNames /\ WD(p, i + 2, eg, depth)
         [] p[i] \in ClassNames -> FALSE
         [] p[i] = "[" -> LET b == Bracket(p, i + 1) IN
                          /\ b.ok
                          /\ \A q \in (i+1)..(b.next - 2) : (p[q] = "-" /\ q > i + 1 /\ q < b.next - 2) =>
                                  (p[q-1] \notin ClassNames /\ p[q+1] \notin ClassNames /\ p[q-1] # "\\" /\ p[q+1] # "\\" /\ p[q-1] # "["
                                   /\ p[q-1] # "!" /\ p[q-1] # "^" /\ Ord(p[q-1]) <= Ord(p[q+1]))
                          /\ \A q \in (i+1)..(b.next - 2) : p[q] \notin {"[", "\\"} \cup ExtOpeners
                          /\ WD(p, b.next, eg, depth)
         \* an empty alternative ( `@()`, `@(a|)`, `@(|a)` ) is accepted by bash but given scanner-dependent meanings
         [] eg /\ p[i] \in ExtOpeners -> i + 1 <= Len(p) /\ p[i+1] \notin {"|", ")"} /\ WD(p, i + 1, eg, depth + 1)
         [] eg /\ p[i] = ")" -> depth > 0 /\ WD(p, i + 1, eg, depth - 1)
         [] eg /\ p[i] = "|" -> depth > 0 /\ i + 1 <= Len(p) /\ p[i+1] \notin {"|", ")"} /\ WD(p, i + 1, eg, depth)
         [] ~eg /\ p[i] \in ExtOpeners -> FALSE
         [] OTHER -> WD(p, i + 1, eg, depth)
WellDefined(p, eg) == WD(p, 1, eg, 0)

\* ------------------------------------------------------------------ sanity properties of the definition itself
\* (checked by TLC over the enumerated domain in MC_Glob)
StarIdem(p, s) == TRUE
=============================================================================
