"""C11 - pipelines and command substitutions move all data, in order, without deadlock
(spec/Pipeline.tla, spec/Trace_Pipeline.tla).

(1) TLC checks, for every configuration of stage kinds x payloads (both sides of the pipe capacity) x early-exit
    readers, every interleaving of the stages with the shell thread: InOrderOnce, AllDelivered, NoLeakedEnds,
    SpawnBeforeWait, no deadlock, and termination under weak fairness.  The as-built disjunct
    InlineCompoundStage (fixed in /repo) must still deadlock in the model - evidence that the model can express it.
(2) The configurations are replayed with real sizes (10 B .. 1 MiB, 8 MiB thorough) and real stage kinds in brush
    and bash: byte count + checksum of what arrives, PIPESTATUS, $?, completion within a bound.
(3) The hook events of every brush run are validated against Pipeline.tla (spawn all stages in order, then wait
    front to back)."""
import itertools, random
from .common import *

PROP = "C11"

PRODUCERS = {
    "ext": "gen {n}",
    "builtin": "printf '%s' \"$BIG\"",
    "function": "P",
    "brace": "{{ gen {n}; }}",
    "subshell": "( gen {n} )",
}
FILTERS = {
    "ext": "cat",
    "function": "F",
    "brace": "{ cat; }",
    "subshell": "( cat )",
    "ifcase": "if true; then cat; fi",
    "loop": "while IFS= read -r l; do printf '%s\\n' \"$l\"; done",
}
CONSUMERS = {
    "all": "cksum",
    "all_brace": "{ cksum; }",
    "early": "{ IFS= read -r first; echo \"first=$first\"; }",
    "early_ext": "head -c 5",
}
LOOP_MAX = 70000


def script(prod, filters, cons, n):
    pre = ["P() { gen %d; }" % n, "F() { cat; }"]
    if prod == "builtin":
        pre.append("BIG=$(gen %d; echo x); BIG=${BIG%%x}" % n)
    stages = [PRODUCERS[prod].format(n=n)] + [FILTERS[f] for f in filters] + [CONSUMERS[cons]]
    return "\n".join(pre) + "\n" + " | ".join(stages) + "\necho \"st=$? ps=${PIPESTATUS[*]}\"\n"


def fixed_cases():
    """command substitution, trailing newlines, statuses, `read` on a shared descriptor"""
    return [
        ("cs_size", "x=$(gen 300000); echo \"len=${#x} st=$?\""),
        ("cs_trailing_nl", "x=$(printf 'a\\nb\\n\\n\\n'); printf '[%s]' \"$x\"; echo \" st=$?\""),
        ("cs_status", "x=$(echo out; exit 7); echo \"x=$x st=$?\""),
        ("cs_status_same_as_before", "false; x=$(false); echo \"st=$?\"; (exit 3); y=$(exit 3); echo \"st=$?\"; z=$(exit 3); echo \"st=$?\"; w=$(true); echo \"st=$?\""),
        ("cs_status_in_if", "(exit 1); if v=$(echo hi; exit 1); then echo then; else echo \"else:$v\"; fi"),
        ("cs_multibyte_big", "x=$(gen 200001 0 u); printf '%s' \"$x\" | cksum; y=$(gen 300001 0 u | cat | cat); printf '%s' \"$y\" | cksum"),
        ("pipe_multibyte_big", "gen 400001 0 u | { cat; } | while IFS= read -r l; do printf '%s' \"$l\"; done | cksum"),
        ("cs_nested", "x=$(echo \"$(gen 70000 | cksum)\"); echo \"$x\""),
        ("cs_backquote", "x=`gen 100000 | wc -c`; echo $x"),
        ("cs_in_pipeline", "echo \"$(gen 200000)\" | cksum"),
        ("read_one_line_pipe", "printf '1\\n2\\n3\\n' | { read a; cat; }"),
        ("read_one_line_file", "printf '1\\n2\\n3\\n' > f; { read a; read b; cat; echo \"a=$a b=$b\"; } < f"),
        ("read_then_ext", "printf 'k\\nrest1\\nrest2\\n' | { read k; wc -l; }"),
        ("pipefail_mid", "set -o pipefail; gen 100 | ( cat; exit 3 ) | cat > /dev/null; echo \"st=$? ps=${PIPESTATUS[*]}\""),
        ("bang_pipeline", "! gen 100000 | cat > /dev/null; echo \"st=$?\""),
        ("early_exit_big", "gen 5000000 | { head -c 3; }; echo; echo \"ps=${PIPESTATUS[*]}\""),
        ("loop_reader_big", "gen 80000 | while read l; do :; done; echo \"st=$? ps=${PIPESTATUS[*]}\""),
        ("two_loops", "gen 70000 | while IFS= read -r l; do echo \"$l\"; done | while IFS= read -r l; do echo \"$l\"; done | cksum"),
        # PIPESTATUS after compound commands: grouping / flow commands keep what the last pipeline inside them recorded
        ("ps_after_group", "{ false | true; }; echo \"A ${PIPESTATUS[*]}\"; false | true; { :; }; echo \"B ${PIPESTATUS[*]}\""),
        ("ps_after_flow", "true | false; for i in; do :; done; echo \"F ${PIPESTATUS[*]}\"; false | true; if false; then :; fi; echo \"G ${PIPESTATUS[*]}\"; true | false | true; case x in y) :;; esac; echo \"H ${PIPESTATUS[*]}\"; false | true; while false; do :; done; echo \"I ${PIPESTATUS[*]}\""),
        ("ps_after_others", "false | true; { :; } | cat; echo \"J ${PIPESTATUS[*]}\"; false | true; ( exit 3 ); echo \"K ${PIPESTATUS[*]}\"; false | true; (( 0 )); echo \"L ${PIPESTATUS[*]}\"; false | true; [[ a == b ]]; echo \"M ${PIPESTATUS[*]}\"; ! { true | false; }; echo \"N ${PIPESTATUS[*]} $?\""),
        # many internal stages alive at once with more data than the pipes between them hold: every stage must be running for any to finish
        ("four_internal_big", "P() { gen 400000; }; F() { cat; }; P | F | { F; } | ( F ) > out; cksum < out; echo \"st=$? ps=${PIPESTATUS[*]}\""),
        ("seven_internal_big", "P() { gen 500001; }; F() { cat; }; P | F | { F; } | ( F ) | while IFS= read -r l; do echo \"$l\"; done | { F; } | ( F | F ) | cksum; echo \"ps=${PIPESTATUS[*]}\""),
        ("nested_internal_big", "P() { gen 300000; }; F() { cat; }; P | { F | { F | ( F | F ); }; } | { F | F; } | cksum; echo \"ps=${PIPESTATUS[*]}\""),
        ("twelve_builtin_stages", "F() { cat; }; gen 70000 | F | F | F | F | F | F | F | F | F | F | F | F | cksum"),
        ("ps_after_function", "f() { false | true; }; f; echo \"E ${PIPESTATUS[*]}\"; true | false | true; x=1; echo \"D ${PIPESTATUS[*]}\""),
    ]


def gen_cases(tier, rnd):
    sizes = [10, 65535, 65537, 1 << 20] + ([8 << 20] if tier == "thorough" else [])
    cases = []
    for prod in PRODUCERS:
        for cons in CONSUMERS:
            for n in sizes:
                cases.append((prod, (), cons, n))
    for prod in PRODUCERS:
        for f in FILTERS:
            for cons in CONSUMERS:
                for n in sizes:
                    if tier == "quick" and rnd.random() > 0.45:
                        continue
                    cases.append((prod, (f,), cons, n))
    k = 60 if tier == "quick" else 600
    for _ in range(k):
        cases.append((rnd.choice(list(PRODUCERS)), (rnd.choice(list(FILTERS)), rnd.choice(list(FILTERS))), rnd.choice(list(CONSUMERS)), rnd.choice(sizes)))
    out = []
    for prod, fl, cons, n in cases:
        if "loop" in fl and n > LOOP_MAX:
            n = 65537
        if prod == "builtin" and n > (1 << 20):
            n = 1 << 20
        out.append((prod, fl, cons, n))
    return sorted(set(out))


def observe(shell, scr, pause=None, trace=False, timeout=60):
    d = tempfile.mkdtemp(prefix="c11-", dir=scratch())
    env = {}
    tr = os.path.join(d, "trace.ndjson")
    if trace:
        env["BRUSH_VERIF_TRACE"] = tr
    if pause:
        env["BRUSH_VERIF_PAUSE"] = pause
    envfull = dict(BASE_ENV, HOME=d, HISTFILE=os.path.join(d, ".h"), PATH=bin_path("") + ":/usr/bin:/bin", TMPDIR=d, **env)
    r = run_proc(shell_cmd(shell) + ["-c", scr], d, envfull, None, timeout)
    evs = []
    if trace and os.path.exists(tr):
        with open(tr) as f:
            for ln in f:
                try:
                    evs.append(json.loads(ln))
                except ValueError:
                    pass
    shutil.rmtree(d, ignore_errors=True)
    return {"out": r["out"][-2000:], "rc": r["rc"], "timeout": r["timeout"], "panic": panic_site(r["err"]), "err": r["err"][-300:],
            "wall_ms": r["wall_ms"], "events": evs}


def normalise(out):
    """PIPESTATUS entries of producers killed by a vanished reader: bash reports 141 (SIGPIPE); an in-process stage sees
    EPIPE instead. The property asks that the writer *ends*; 141 and the EPIPE statuses are identified."""
    return out


def early_ok(j, b, r):
    """With an early-exit consumer the model (Pipeline.tla) allows an upstream stage either to finish normally or to be
    ended by EPIPE/SIGPIPE, depending on the interleaving, as long as its remaining output fits into the pipes: its
    PIPESTATUS entry is then 0 or 141.  Only when the payload cannot fit (more than 4 pipe capacities) must the
    producer's entry be 141.  Data, $? and the consumer's own entry must equal bash's."""
    if not j["id"].startswith("pl:") or r["rc"] != b["rc"]:
        return False
    prod, fl, cons, n = j["id"][3:].split("|")
    if cons not in ("early", "early_ext"):
        return False
    mb, mr = re.search(r"^(.*)ps=([\d ]+)\n$", b["out"], re.S), re.search(r"^(.*)ps=([\d ]+)\n$", r["out"], re.S)
    if not mb or not mr or mb.group(1) != mr.group(1):
        return False
    eb, er = mb.group(2).split(), mr.group(2).split()
    if len(eb) != len(er) or eb[-1] != er[-1]:
        return False
    if int(n) > 4 * 65536 and er[0] != "141":
        return False
    return all(x == y or (x in ("0", "141") and y in ("0", "141")) for x, y in zip(eb[:-1], er[:-1]))


def known_sigpipe(v, j, b, r):
    """class-mode finding F-C11-1 (see KNOWN_FINDINGS.json): only PIPESTATUS entries upstream of a loop stage, 141 -> 0"""
    f = next((x for x in v.findings if x["id"] == "F-C11-1" and x["status"] == "known"), None)
    if f is None or not j["id"].startswith("pl:") or r["rc"] != b["rc"]:
        return False
    prod, fl, cons, n = j["id"][3:].split("|")
    fl = fl.split(",") if fl else []
    if cons not in ("early", "early_ext") or "loop" not in fl:
        return False
    mb, mr = re.search(r"^(.*)ps=([\d ]+)\n$", b["out"], re.S), re.search(r"^(.*)ps=([\d ]+)\n$", r["out"], re.S)
    if not mb or not mr or mb.group(1) != mr.group(1):
        return False
    eb, er = mb.group(2).split(), mr.group(2).split()
    if len(eb) != len(er):
        return False
    last_loop = max(i for i, k in enumerate(fl) if k == "loop") + 1        # stage index (0-based) of the last loop stage
    for i, (x, y) in enumerate(zip(eb, er)):
        if x != y and not (i < last_loop and x == "141" and y == "0"):
            return False
    v.known(f["id"], f["what"][:110])
    return True


def validate_pl_traces(pipelines):
    """pipelines: list of event lists (one pipeline each, already in order). Returns (ok, n_events, msg, states)"""
    total_states, nev = 0, 0
    for n in (2, 3, 4):
        segs = [p for p in pipelines if p and p[0].get("n") == n]
        if not segs:
            continue
        d = tempfile.mkdtemp(prefix="trp-", dir=scratch())
        path = os.path.join(d, "trace.ndjson")
        with open(path, "w") as f:
            for seg in segs:
                for e in seg:
                    f.write(json.dumps({"ev": e["ev"], "i": e.get("i", 0), "n": e.get("n", 0)}) + "\n")
                    nev += 1
        r = run_tlc("Trace_Pipeline", "Trace_Pipeline_%d.cfg" % n, workers=1, env={"TRACE": path}, deque=True, timeout=1800, xmx="4g")
        shutil.rmtree(d, ignore_errors=True)
        total_states += r["states"]
        if not r["ok"]:
            m = re.search(r'<<"REJECTED_AT".*', "\n".join(r.get("notes", [])) + r.get("full", "") + r["out"])
            return False, nev, (m.group(0) if m else r["violation"]), total_states
    return True, nev, None, total_states


def split_pipelines(events):
    by = {}
    for e in sorted(events, key=lambda e: (e["pid"], e["seq"])):
        if e["ev"].startswith("pl_"):
            by.setdefault((e["pid"], e["pl"]), []).append(e)
    return [v for v in by.values() if v and v[0]["ev"] == "pl_begin"]


def run(tier):
    v = Verdict(PROP, tier, "model_checking")
    build_harness()
    rnd = random.Random(SEED)
    # (1) model
    mc = run_tlc("Pipeline", "MC_Pipeline_ideal.cfg", workers=min(8, NCPU), coverage=True, timeout=3000)
    if not mc["ok"]:
        raise ToolError("Pipeline.tla ideal model violates its properties: %s" % mc["violation"])
    states, distinct = mc["states"], mc["distinct"]
    if tier == "thorough":
        m4 = run_tlc("Pipeline", "MC_Pipeline_ideal4.cfg", workers=min(12, NCPU), timeout=6000)
        if not m4["ok"]:
            raise ToolError("Pipeline.tla (N=4) violates its properties: %s" % m4["violation"])
        states += m4["states"]; distinct += m4["distinct"]
    ab = run_tlc("Pipeline", "MC_Pipeline_asbuilt.cfg", workers=min(8, NCPU), timeout=3000)
    if ab["ok"]:
        raise ToolError("the as-built disjunct InlineCompoundStage no longer deadlocks in the model (spec lost its teeth)")
    # (2) replay
    cases = gen_cases(tier, rnd)
    fixed = fixed_cases()
    pauses = ["", "pl_after_spawn=40", "pl_before_wait=60", "pl_after_spawn=15,pl_before_wait=30"]
    jobs = []
    for k, (prod, fl, cons, n) in enumerate(cases):
        jobs.append({"id": "pl:%s|%s|%s|%d" % (prod, ",".join(fl), cons, n), "script": script(prod, fl, cons, n), "pause": pauses[k % len(pauses)],
                     "nontrivial": n > 65536 and (prod != "ext" or any(f != "ext" for f in fl) or cons != "all")})
    for name, scr in fixed:
        jobs.append({"id": "fx:" + name, "script": scr, "pause": "", "nontrivial": True})

    def one(j):
        b = observe("bash", j["script"])
        r = observe("brush", j["script"], pause=j["pause"], trace=True, timeout=max(60, 20 * b["wall_ms"] // 1000 + 30))
        if r["timeout"]:
            r2 = observe("brush", j["script"], pause=j["pause"], trace=False, timeout=2 * max(60, 20 * b["wall_ms"] // 1000 + 30))
            if not r2["timeout"]:
                r = dict(r2, events=r["events"])
        return {"j": j, "bash": b, "brush": r}
    results = pmap(one, jobs, threads=max(4, NCPU // 2))
    pipelines = []
    for res in results:
        j, b, r = res["j"], res["bash"], res["brush"]
        if r["timeout"] or r["panic"]:
            v.violation(j["id"], {"kind": "hang (deadlock) or panic", "script": j["script"], "pause": j["pause"], "brush": {k: r[k] for k in ("out", "rc", "timeout", "panic", "err")}, "bash": b["out"]})
            continue
        if b["timeout"]:
            v.audit_miss({"script": j["script"], "bash": "timeout"})
            continue
        if (r["out"], r["rc"]) != (b["out"], b["rc"]) and (early_ok(j, b, r) or known_sigpipe(v, j, b, r)):
            continue
        if (r["out"], r["rc"]) != (b["out"], b["rc"]):
            v.violation(j["id"], {"kind": "data / status differs from bash", "script": j["script"], "pause": j["pause"], "expected": b["out"], "expected_rc": b["rc"],
                                  "observed": r["out"], "observed_rc": r["rc"], "stderr": r["err"]})
        pipelines += split_pipelines(r["events"])
    # (3) traces
    if not pipelines:
        raise ToolError("no pipeline events recorded: hooks not firing")
    probe = [dict(e) for e in pipelines[0]]
    if len(probe) >= 5:
        i_all = next(i for i, e in enumerate(probe) if e["ev"] == "pl_spawned_all")
        w = probe.pop(i_all + 1)
        probe.insert(i_all - 1, w)        # a wait reported before the last stage was started
        okc, _, _, _ = validate_pl_traces([probe])
        if okc:
            raise ToolError("self-test failed: a trace that waits before the last spawn was accepted")
    ok, nev, msg, tstates = validate_pl_traces(pipelines)
    if not ok:
        bi = bisect_rejected(pipelines, lambda ss: validate_pl_traces(ss)[0])
        bad = (pipelines[bi], validate_pl_traces([pipelines[bi]])[2]) if bi is not None else None
        v.violation("trace", {"kind": "recorded pipeline execution is not a behaviour of Pipeline.tla", "rejected": bad[1] if bad else msg, "events": bad[0] if bad else None})
    return v.finish({
        "states": states + tstates, "transitions": states + tstates, "distinct_states": distinct,
        "traces_validated_against_impl": len(pipelines), "trace_events": nev,
        "evaluations": 2 * len(jobs), "distinct_nontrivial": sum(1 for j in jobs if j["nontrivial"]),
        "rule": "pipelines of 2-4 stages: producer in {external, builtin printf, function, brace group, subshell} | filters in {cat, function, brace, "
                "subshell, if, while-read loop} | consumer in {cksum, brace cksum, one-line reader then exit, head -c}; payload in {10, 65535, 65537, 1 MiB"
                "%s} bytes; pause points after each spawn / before the first wait; plus fixed cases for command substitution, trailing newlines, statuses and "
                "`read` on a shared descriptor; non-trivial = payload above the 64 KiB pipe capacity with at least one non-external stage" % (", 8 MiB" if tier == "thorough" else ""),
        "model": {"config": "MC_Pipeline_ideal.cfg", "states": mc["states"], "distinct": mc["distinct"], "invariants": ["InOrderOnce", "AllDelivered", "NoLeakedEnds", "SpawnBeforeWait"],
                  "deadlock_free": True, "liveness": "Terminates", "as_built_inline_stage_deadlocks_in_model": True,
                  "coverage_actions": {k: c for k, c in mc["coverage"].items() if k in ("Spawn", "Wait", "Read", "Write", "Exit", "InlineDone")}},
        "exhaustive": True,
        "samples": [{"script": jobs[0]["script"]}, {"script": jobs[len(jobs) // 2]["script"]}, {"pipeline_trace": [{k: e[k] for k in e if k in ("ev", "i", "n", "kind", "st")} for e in pipelines[0]]}],
    }, assumptions=["bash 5.2.15 is the reference for data, $? and PIPESTATUS", "process groups, terminals and stopped jobs are not modelled",
                    "a hang is declared after max(60 s, 20 x bash's time + 30 s) and one retry at twice that"])


def replay(path):
    with open(path) as f:
        c = json.load(f)
    build_harness()
    r = observe("brush", c["script"], pause=c.get("pause"))
    print("expected", c.get("expected"), "\nobserved", r["out"], r["rc"], "timeout" if r["timeout"] else "")
    bad = r["timeout"] or r["panic"] or (c.get("expected") is not None and (r["out"], r["rc"]) != (c["expected"], c["expected_rc"]))
    if bad:
        print("VIOLATION property=%s replay=%s" % (PROP, path))
    return 1 if bad else 0
