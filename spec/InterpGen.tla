----------------------------- MODULE InterpGen -----------------------------
(* Program generator for Interp.tla (C02, C03, C15a, C16, C18).

   A program is a flat array P of nodes  [t, a, b, c, n, m]  (a, b, c: child indices, 0 = none;
   n, m: integer payload).  Generation is by hole expansion: P starts as one hole; each step
   replaces the lowest-index hole by a node of one production, appending that node's child
   holes.  Holes are *typed*: they carry the remaining nesting budget d, the static loop depth
   ld and function depth fd of their position (so that break/continue/return are offered where
   they mean something), a `foc` flag (only focus holes may expand into constructs - this gives
   "every construct in every hole of every construct" chains instead of bushy trees when
   Bushy = FALSE) and `np` (> 0 inside a loop-condition prefix, counting the loops entered since: a plain
   `continue` that reaches the condition's own loop would never terminate in bash, so
   `continue n` is offered there only for n <= np - 1).

   Node kinds (rendered by driver/render.py; semantics in Interp.tla):
     leaves    M(m=status)  X(m=status)  T  brk(n)  cont(n)  kc(n)  ret(n)  exit(n)
               seto(n=option, m=0/1)  S(m=status)  us (unset-variable expansion)  fe (${x:?})
               trapx/trape(n=handler)  trapr(n=0 exit / 1 err)  execx(n)
     lists     seq(a,b) and(a,b) or(a,b) not(a)
     compound  grp(a) sub(a) if(c,a,b) while(c=pre,a,n=rounds,m=0 while/1 until)
               for(a,n=words) afor(a,n=rounds) case(a,b,c,n=match mask,m=terminators)
               fn(a) eval(a) cs(a) pipe(a,b,n,m)                                        *)
EXTENDS Naturals, Sequences, FiniteSets, TLC, Json

CONSTANTS Depth,        \* nesting budget of the root hole
          MaxNodes,     \* size bound
          Bushy,        \* TRUE: every child hole may expand; FALSE: one focus child per construct
          LeavesFull,   \* leaf productions offered in holes of the innermost construct
          LeavesLite,   \* leaf productions offered in non-focus holes
          Constructs,   \* construct kinds offered
          CaseShapes    \* set of <<arms, match mask, terminators>> offered for case

VARIABLES P
vars == <<P>>

N(t, a, b, c, n, m) == [t |-> t, a |-> a, b |-> b, c |-> c, n |-> n, m |-> m, d |-> 0, ld |-> 0, fd |-> 0, foc |-> 0, np |-> 0]
Hole(d, ld, fd, foc, np) == [t |-> "hole", a |-> 0, b |-> 0, c |-> 0, n |-> 0, m |-> 0, d |-> d, ld |-> ld, fd |-> fd, foc |-> foc, np |-> np]

Holes == {i \in 1..Len(P) : P[i].t = "hole"}
H == CHOOSE i \in Holes : \A j \in Holes : i <= j
L == Len(P)

\* A leaf production is a record [t, n, m]; admissibility depends on the hole's type.
LeafOK(lf, h) ==
  CASE lf.t \in {"brk", "cont", "kc"} -> /\ lf.n <= h.ld + 1                 \* one level too many is kept (clamping)
                                        /\ (h.ld > 0 \/ lf.n = 1)
                                        /\ (lf.t = "cont" => (h.np = 0 \/ lf.n <= h.np - 1))
                                        /\ (lf.t = "kc" => h.ld > 0)
    [] lf.t = "ret" -> TRUE
    [] OTHER -> TRUE

LeafSet(h) == IF h.foc = 1 THEN LeavesFull ELSE LeavesLite

GenLeaf == \E lf \in LeafSet(P[H]) :
              /\ LeafOK(lf, P[H])
              /\ P' = [P EXCEPT ![H] = [N(lf.t, 0, 0, 0, lf.n, lf.m) EXCEPT !.foc = P[H].foc]]

\* child hole helpers: which child gets the focus
FocusChoices(k) == IF Bushy THEN {0} ELSE 1..k
F(sel, j) == IF Bushy THEN 1 ELSE (IF sel = j THEN 1 ELSE 0)

CanExpand(h, kids) == h.d > 0 /\ h.foc = 1 /\ L + kids <= MaxNodes

GenUnary == LET h == P[H] IN
  /\ CanExpand(h, 1)
  /\ \E u \in Constructs \cap {"not", "grp", "sub", "fn", "eval", "cs", "for0", "for1", "for2", "afor2"} :
       LET inLoop == u \in {"for0", "for1", "for2", "afor2"}
           ld1 == IF inLoop THEN h.ld + 1 ELSE IF u \in {"fn", "sub", "cs"} THEN 0 ELSE h.ld
           fd1 == IF u = "fn" THEN h.fd + 1 ELSE h.fd
           np1 == IF u \in {"fn", "sub", "cs"} THEN 0 ELSE IF inLoop /\ h.np > 0 THEN h.np + 1 ELSE h.np
           nd  == CASE u = "for0" -> N("for", L+1, 0, 0, 0, 0)
                    [] u = "for1" -> N("for", L+1, 0, 0, 1, 0)
                    [] u = "for2" -> N("for", L+1, 0, 0, 2, 0)
                    [] u = "afor2" -> N("afor", L+1, 0, 0, 2, 0)
                    [] OTHER -> N(u, L+1, 0, 0, 0, 0)
       IN P' = [P EXCEPT ![H] = nd] \o <<Hole(h.d - 1, ld1, fd1, 1, np1)>>

GenBinary == LET h == P[H] IN
  /\ CanExpand(h, 2)
  /\ \E u \in Constructs \cap {"seq", "and", "or"} : \E sel \in FocusChoices(2) :
       P' = [P EXCEPT ![H] = N(u, L+1, L+2, 0, 0, 0)]
              \o <<Hole(h.d - 1, h.ld, h.fd, F(sel, 1), h.np), Hole(h.d - 1, h.ld, h.fd, F(sel, 2), h.np)>>

GenIf == LET h == P[H] IN
  /\ "if" \in Constructs
  /\ \/ /\ CanExpand(h, 3)          \* if c; then a; else b; fi
        /\ \E sel \in FocusChoices(3) :
             P' = [P EXCEPT ![H] = N("if", L+2, L+3, L+1, 0, 0)]
                    \o <<Hole(h.d-1, h.ld, h.fd, F(sel,1), h.np), Hole(h.d-1, h.ld, h.fd, F(sel,2), h.np), Hole(h.d-1, h.ld, h.fd, F(sel,3), h.np)>>
     \/ /\ CanExpand(h, 2)          \* if c; then a; fi
        /\ \E sel \in FocusChoices(2) :
             P' = [P EXCEPT ![H] = N("if", L+2, 0, L+1, 0, 0)]
                    \o <<Hole(h.d-1, h.ld, h.fd, F(sel,1), h.np), Hole(h.d-1, h.ld, h.fd, F(sel,2), h.np)>>
     \/ /\ CanExpand(h, 4) /\ "elif" \in Constructs   \* if c; then a; elif c2; then a2; fi  (b = nested if with m = 1)
        /\ \E sel \in FocusChoices(4) :
             P' = [P EXCEPT ![H] = N("if", L+2, L+3, L+1, 0, 0)]
                    \o <<Hole(h.d-1, h.ld, h.fd, F(sel,1), h.np), Hole(h.d-1, h.ld, h.fd, F(sel,2), h.np),
                         N("if", L+5, 0, L+4, 0, 1),
                         Hole(h.d-1, h.ld, h.fd, F(sel,3), h.np), Hole(h.d-1, h.ld, h.fd, F(sel,4), h.np)>>

GenWhile == LET h == P[H] IN
  /\ \E u \in Constructs \cap {"while", "until"} : \E q \in {1, 2} : \E pre \in {0, 1} :
       LET w == IF u = "while" THEN 0 ELSE 1 IN
       IF pre = 0
       THEN /\ CanExpand(h, 1)
            /\ P' = [P EXCEPT ![H] = N("while", L+1, 0, 0, q, w)] \o <<Hole(h.d-1, h.ld+1, h.fd, 1, IF h.np > 0 THEN h.np + 1 ELSE 0)>>
       ELSE /\ CanExpand(h, 2) /\ q = 1
            /\ \E sel \in FocusChoices(2) :
                 P' = [P EXCEPT ![H] = N("while", L+2, 0, L+1, q, w)]
                        \o <<Hole(h.d-1, h.ld+1, h.fd, F(sel,1), 1), Hole(h.d-1, h.ld+1, h.fd, F(sel,2), IF h.np > 0 THEN h.np + 1 ELSE 0)>>

GenCase == LET h == P[H] IN
  /\ "case" \in Constructs
  /\ \E shp \in CaseShapes :
       LET arms == shp[1] IN            \* number of arms 1..3; shp = <<arms, mask, terms>>
       /\ CanExpand(h, arms)
       /\ \E sel \in FocusChoices(arms) :
            P' = [P EXCEPT ![H] = N("case", L+1, IF arms >= 2 THEN L+2 ELSE 0, IF arms >= 3 THEN L+3 ELSE 0, shp[2], shp[3])]
                   \o [j \in 1..arms |-> Hole(h.d-1, h.ld, h.fd, F(sel, j), h.np)]

GenPipe == LET h == P[H] IN
  /\ "pipe" \in Constructs
  /\ \E s \in {0, 1} : \E pos \in {1, 2} :
       \/ /\ CanExpand(h, 1)          \* one general stage + one silent stage S s
          /\ P' = [P EXCEPT ![H] = IF pos = 1 THEN N("pipe", L+1, 0, 0, 0, s) ELSE N("pipe", 0, L+1, 0, s, 0)]
                    \o <<Hole(h.d-1, 0, h.fd, 1, 0)>>
       \/ /\ h.foc = 1 /\ pos = 1 /\ L <= MaxNodes    \* two silent stages (leaf-like, focus holes only)
          /\ \E s2 \in {0, 1} : P' = [P EXCEPT ![H] = N("pipe", 0, 0, 0, s, s2)]

Init == P = <<Hole(Depth, 0, 0, 1, 0)>>
Next == /\ Holes # {}
        /\ (GenLeaf \/ GenUnary \/ GenBinary \/ GenIf \/ GenWhile \/ GenCase \/ GenPipe)
Spec == Init /\ [][Next]_vars

Strip(nd) == [t |-> nd.t, a |-> nd.a, b |-> nd.b, c |-> nd.c, n |-> nd.n, m |-> nd.m, foc |-> nd.foc]
Emit == Holes = {} => PrintT(<<"PROG", ToJson([P |-> [i \in 1..Len(P) |-> Strip(P[i])]])>>)
=============================================================================
