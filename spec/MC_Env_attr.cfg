CONSTANTS Names = {"x", "y"} DEV = {} Profile = "attr" L = 4
INIT Init
NEXT Next
INVARIANTS Emit RoOK NeutralOK
CHECK_DEADLOCK FALSE
