-------------------------------- MODULE Quote --------------------------------
(* The shell READER for one quoted word (C13): what a POSIX/bash shell obtains when it reads a text
   produced by `printf %q`, `${v@Q}`, ... back in.  Independent of brush's quoting code
   (brush-core/src/escape.rs); it is the inverse the property demands: Read(Quote(v)) = v.

   A text and a value are sequences of one-character strings.  Read(t, chr) = [ok, val, why]:
     ok = FALSE when the text is not a single fully protected word: an unquoted blank or newline (it would
     split), an unquoted character that expands or is syntax ($ ` * ? [ ] { } ~ # ! ; & | < > ( ) =),
     an unterminated quote, an escape the reader does not know.
   chr maps "c<code>" to the character with that code (the driver supplies it: TLA+ source cannot spell
   control characters).                                                                            *)
EXTENDS Naturals, Sequences, TLC

Unsafe == {" ", "\t", "\n", "$", "`", "*", "?", "[", "]", "{", "}", "~", "#", "!", ";", "&", "|", "<", ">", "(", ")", "'", "\"", "\\", "=", "^", "\r"}
HexVal(c) == CASE c = "0" -> 0 [] c = "1" -> 1 [] c = "2" -> 2 [] c = "3" -> 3 [] c = "4" -> 4 [] c = "5" -> 5 [] c = "6" -> 6 [] c = "7" -> 7
               [] c = "8" -> 8 [] c = "9" -> 9 [] c \in {"a", "A"} -> 10 [] c \in {"b", "B"} -> 11 [] c \in {"c", "C"} -> 12
               [] c \in {"d", "D"} -> 13 [] c \in {"e", "E"} -> 14 [] c \in {"f", "F"} -> 15 [] OTHER -> 99
IsHex(c) == HexVal(c) < 16
IsOct(c) == HexVal(c) < 8
Fail(why) == [ok |-> FALSE, val |-> <<>>, why |-> why]
Chr(chr, n) == LET k == "c" \o ToString(n) IN IF k \in DOMAIN chr THEN <<chr[k]>> ELSE <<"?unknown-code">>

RECURSIVE Plain(_, _, _, _), Dq(_, _, _, _), Ansi(_, _, _, _), Sq(_, _, _, _)
\* inside '...': everything literal up to the next quote
Sq(t, i, acc, chr) == IF i > Len(t) THEN Fail("unterminated '")
                      ELSE IF t[i] = "'" THEN Plain(t, i + 1, acc, chr) ELSE Sq(t, i + 1, Append(acc, t[i]), chr)
\* inside "...": backslash escapes only $ ` " \ and newline; $ and ` would expand
Dq(t, i, acc, chr) ==
  IF i > Len(t) THEN Fail("unterminated \"")
  ELSE CASE t[i] = "\"" -> Plain(t, i + 1, acc, chr)
         [] t[i] \in {"$", "`"} -> Fail("expansion inside double quotes")
         [] t[i] = "\\" -> IF i + 1 > Len(t) THEN Fail("dangling backslash")
                           ELSE IF t[i+1] \in {"$", "`", "\"", "\\"} THEN Dq(t, i + 2, Append(acc, t[i+1]), chr)
                           ELSE IF t[i+1] = "\n" THEN Dq(t, i + 2, acc, chr)
                           ELSE Dq(t, i + 2, acc \o <<"\\", t[i+1]>>, chr)
         [] OTHER -> Dq(t, i + 1, Append(acc, t[i]), chr)
\* inside $'...': ANSI-C escapes
Ansi(t, i, acc, chr) ==
  IF i > Len(t) THEN Fail("unterminated $'")
  ELSE CASE t[i] = "'" -> Plain(t, i + 1, acc, chr)
         [] t[i] = "\\" ->
              IF i + 1 > Len(t) THEN Fail("dangling backslash")
              ELSE LET e == t[i+1] IN
                CASE e = "n" -> Ansi(t, i + 2, Append(acc, "\n"), chr) [] e = "t" -> Ansi(t, i + 2, Append(acc, "\t"), chr)
                  [] e = "r" -> Ansi(t, i + 2, Append(acc, "\r"), chr) [] e = "\\" -> Ansi(t, i + 2, Append(acc, "\\"), chr)
                  [] e = "'" -> Ansi(t, i + 2, Append(acc, "'"), chr) [] e = "\"" -> Ansi(t, i + 2, Append(acc, "\""), chr)
                  [] e = "?" -> Ansi(t, i + 2, Append(acc, "?"), chr)
                  [] e = "a" -> Ansi(t, i + 2, acc \o Chr(chr, 7), chr) [] e = "b" -> Ansi(t, i + 2, acc \o Chr(chr, 8), chr)
                  [] e \in {"e", "E"} -> Ansi(t, i + 2, acc \o Chr(chr, 27), chr) [] e = "f" -> Ansi(t, i + 2, acc \o Chr(chr, 12), chr)
                  [] e = "v" -> Ansi(t, i + 2, acc \o Chr(chr, 11), chr)
                  [] e = "x" -> IF i + 2 <= Len(t) /\ IsHex(t[i+2])
                                THEN IF i + 3 <= Len(t) /\ IsHex(t[i+3])
                                     THEN Ansi(t, i + 4, acc \o Chr(chr, 16 * HexVal(t[i+2]) + HexVal(t[i+3])), chr)
                                     ELSE Ansi(t, i + 3, acc \o Chr(chr, HexVal(t[i+2])), chr)
                                ELSE Fail("bad \\x escape")
                  [] e = "u" -> IF i + 5 <= Len(t) /\ \A k \in 2..5 : IsHex(t[i+k])
                                THEN Ansi(t, i + 6, acc \o Chr(chr, 4096 * HexVal(t[i+2]) + 256 * HexVal(t[i+3]) + 16 * HexVal(t[i+4]) + HexVal(t[i+5])), chr)
                                ELSE Fail("bad \\u escape")
                  [] e = "c" -> IF i + 2 <= Len(t) THEN Fail("\\c escape not modelled") ELSE Fail("dangling \\c")
                  [] IsOct(e) -> LET d2 == i + 2 <= Len(t) /\ IsOct(t[i+2])
                                     d3 == d2 /\ i + 3 <= Len(t) /\ IsOct(t[i+3])
                                     n == IF d3 THEN 64 * HexVal(e) + 8 * HexVal(t[i+2]) + HexVal(t[i+3])
                                          ELSE IF d2 THEN 8 * HexVal(e) + HexVal(t[i+2]) ELSE HexVal(e) IN
                                 Ansi(t, i + (IF d3 THEN 4 ELSE IF d2 THEN 3 ELSE 2), acc \o Chr(chr, n), chr)
                  [] OTHER -> Ansi(t, i + 2, acc \o <<"\\", e>>, chr)
         [] OTHER -> Ansi(t, i + 1, Append(acc, t[i]), chr)
\* outside quotes
Plain(t, i, acc, chr) ==
  IF i > Len(t) THEN [ok |-> TRUE, val |-> acc, why |-> ""]
  ELSE CASE t[i] = "'" -> Sq(t, i + 1, acc, chr)
         [] t[i] = "\"" -> Dq(t, i + 1, acc, chr)
         [] t[i] = "$" /\ i + 1 <= Len(t) /\ t[i+1] = "'" -> Ansi(t, i + 2, acc, chr)
         [] t[i] = "\\" -> IF i + 1 > Len(t) THEN Fail("dangling backslash")
                           ELSE IF t[i+1] = "\n" THEN Plain(t, i + 2, acc, chr) ELSE Plain(t, i + 2, Append(acc, t[i+1]), chr)
         \* `#` starts a comment only at the start of a word; `~` expands at the start and (in an assignment) after `:`
         [] t[i] = "#" -> IF i = 1 THEN Fail("unquoted # at word start") ELSE Plain(t, i + 1, Append(acc, t[i]), chr)
         [] t[i] = "~" -> IF i = 1 \/ t[i-1] = ":" THEN Fail("unquoted ~ where it expands") ELSE Plain(t, i + 1, Append(acc, t[i]), chr)
         [] t[i] \in Unsafe \ {"=", "^", "]", "}", "!"} -> Fail("unquoted special character")      \* these five are inert inside a word
         [] OTHER -> Plain(t, i + 1, Append(acc, t[i]), chr)
Read(t, chr) == IF t = <<>> THEN Fail("empty text (an empty word must be written '')") ELSE Plain(t, 1, <<>>, chr)
=============================================================================
