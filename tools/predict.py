#!/usr/bin/env python3
"""tools/predict.py <replay.json> [DEV,DEV,...]  - print the model's prediction for the program of a replay file"""
import sys, json, os
sys.path.insert(0, os.path.dirname(os.path.dirname(os.path.abspath(__file__))))
from driver import interp_check as ic
c = json.load(open(sys.argv[1]))
dev = sys.argv[2].split(",") if len(sys.argv) > 2 and sys.argv[2] else []
p, _ = ic.predict([c["program"]], dev=dev, check_props=False, workers=1)
pr = p[c["program"]["id"]]
print([ic.marker(e) for e in pr["out"]], pr["exit"], pr["gh"])
