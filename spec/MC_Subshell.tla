------------------------------ MODULE MC_Subshell ------------------------------
EXTENDS Subshell, Json
MComponents == {"vars", "funcs", "opts", "shopts", "aliases", "traps", "cwd", "umask", "ulimit", "args", "fds", "dirs", "hash"}
MMutators == {"asg", "unset", "export", "readonly", "declint", "ifs", "path", "fdef", "fundef", "sete", "setu", "pipefail", "noglob", "nullglob", "extglob", "alias", "unalias", "trapusr", "trapexit", "trapdbg",
              "cd", "umask", "ulimit", "setargs", "shift", "exec3", "exec2", "execin", "pushd", "hashr", "exit", "return", "execcmd", "execa", "optind", "arr", "assoc", "expasg", "exparith"}
MCompOf == [m \in MMutators |->
   CASE m \in {"asg", "unset", "export", "readonly", "declint", "ifs", "path", "optind", "arr", "assoc", "expasg", "exparith"} -> "vars" [] m \in {"fdef", "fundef"} -> "funcs" [] m \in {"sete", "setu", "pipefail", "noglob"} -> "opts"
     [] m \in {"nullglob", "extglob"} -> "shopts" [] m \in {"alias", "unalias"} -> "aliases" [] m \in {"trapusr", "trapexit", "trapdbg"} -> "traps" [] m = "cd" -> "cwd" [] m = "umask" -> "umask" [] m = "ulimit" -> "ulimit"
     [] m \in {"setargs", "shift"} -> "args" [] m \in {"exec3", "exec2", "execin"} -> "fds" [] m = "pushd" -> "dirs" [] m = "hashr" -> "hash" [] m \in {"exit", "return", "execcmd", "execa"} -> "none"]
MContexts == {"paren", "cs", "bq", "pipefirst", "pipelast", "bg", "procsub", "coproc", "nested", "funcsub", "extfirst", "extlast", "extbg", "extcs", "bgjob", "fnbgjob", "coprocjob", "fnparen", "in_bg", "in_paren", "in_cs", "in_pipe"}      \* in_*: the observing parent is itself a subshell of that kind, the child a ( ) inside it
MJobWaited == {"bgjob", "fnbgjob", "coprocjob"}
Emit == phase # "done" \/ PrintT(<<"CASE", ToJson([ctx |-> ctx, muts |-> prog, changed |-> Changed, alive |-> alive])>>)
================================================================================
