CONSTANTS Fam = "c04" NP = 0 VL = 2 Stride = 1 Phase = 0
INIT Init
NEXT Next
INVARIANT Emit
CHECK_DEADLOCK FALSE
