-------------------------------- MODULE MC_Fd --------------------------------
(* Programs for Fd.tla, drawn by index: program k takes its choices from the alphabets below by mixed small-prime
   hashing (every alphabet element appears in every position for some k).  One state per chunk; the invariant prints
   the program and the model's outcome (files, captured stdout / stderr, probe reports).                       *)
EXTENDS Fd, Json

CONSTANTS NChunks, PerChunk, Offset

R(op, n, w) == [op |-> op, n |-> n, w |-> w]
RA == << R("out", 1, "f"), R("out", 1, "g"), R("out", 2, "f"), R("out", 2, "g"), R("app", 1, "f"), R("app", 2, "g"), R("app", 1, "g"), R("clob", 1, "f"), R("in", 0, "f"), R("in", 0, "g"), R("rw", 0, "f"), R("rw", 1, "g"),
         R("out", 3, "f"), R("out", 5, "g"), R("in", 3, "f"), R("dupout", 2, 1), R("dupout", 1, 2), R("dupout", 1, 3), R("dupout", 3, 1), R("dupout", 5, 2), R("dupin", 5, 0), R("dupin", 0, 3),
         R("close", 1, ""), R("close", 2, ""), R("close", 3, ""), R("close", 0, ""), R("both", 1, "f"), R("both", 1, "g"), R("bothapp", 1, "f"),
         R("text", 0, <<"h", "s", "NL">>), R("text", 3, <<"t", "NL">>), R("dupout", 1, 5), R("app", 3, "f"), R("rw", 3, "g") >>
NR == Len(RA)
ExecA == << <<R("out", 3, "f")>>, <<R("dupout", 3, 1)>>, <<R("out", 5, "g"), R("dupout", 1, 5)>>, <<R("rw", 4, "g")>>, <<R("dupout", 2, 1)>>, <<R("app", 3, "f"), R("close", 3, "")>>, <<R("in", 0, "f")>>, <<R("out", 1, "g"), R("dupout", 2, 1)>> >>
\* (TLC's integers are 32-bit: the program index is split so that no product overflows for indices up to 10^5)
H(k, p, q, m) == (((k % 4096) * p + (k \div 4096) * ((p * 7) % 100003) + q) % 1000003) % m
Pick(k, i) == RA[H(k, 7 + 2 * i * i + 11 * i, 3 * i + 1, NR) + 1]
\* a redirection list of length 0..3 for slot s of program k
RList(k, s) == LET n == H(k, 101 + 7 * s, s, 8) IN        \* lengths 0,1,1,2,2,2,3,3
               LET len == CASE n = 0 -> 0 [] n \in {1, 2} -> 1 [] n \in {3, 4, 5} -> 2 [] OTHER -> 3 IN
               [j \in 1..len |-> Pick(k, 10 * s + j)]
Cmd(k, s, tag) == [k |-> "cmd", rs |-> RList(k, s), body |-> <<>>, tag |-> tag]
Stmt(k, s, tag1, tag2) ==
  LET kind == H(k, 211 + 13 * s, s, 5) IN
  CASE kind \in {0, 1} -> Cmd(k, s, tag1)
    [] kind \in {2, 3} -> [k |-> "grp", rs |-> RList(k, s + 20), body |-> <<Cmd(k, s + 1, tag1), Cmd(k, s + 2, tag2)>>, tag |-> "-"]
    [] OTHER -> [k |-> "grp", rs |-> RList(k, s + 20), tag |-> "-",
                 body |-> <<Cmd(k, s + 1, tag1), [k |-> "grp", rs |-> RList(k, s + 30), body |-> <<Cmd(k, s + 2, tag2)>>, tag |-> "-"]>>]
ProgAt(k) ==
  LET pre == H(k, 307, 5, 6) IN
  (IF pre = 0 THEN <<[k |-> "setC", rs |-> <<>>, body |-> <<>>, tag |-> "-"]>> ELSE <<>>)
  \o (IF pre \in {1, 2} THEN <<[k |-> "exec", rs |-> ExecA[H(k, 401, 9, Len(ExecA)) + 1], body |-> <<>>, tag |-> "-"]>> ELSE <<>>)
  \o <<Stmt(k, 1, "a", "b"), Stmt(k, 5, "c", "d")>>
  \o <<[k |-> "cmd", rs |-> <<>>, body |-> <<>>, tag |-> "z"]>>

Outcome(p) == LET S == RunSeq(Init0({"f", "g"}, [n \in {"f"} |-> <<"F", "F", "F">>]), Tab0, p) IN
              [files |-> S.files, out |-> S.out, err |-> S.err, rep |-> [i \in 1..Len(S.rep) |-> [tag |-> S.rep[i].tag, inp |-> S.rep[i].inp, fds |-> {<<x[1], x[2], x[3]>> : x \in S.rep[i].fds}]]]

VARIABLE c
Init == c = 99999
Next == c = 99999 /\ \E j \in 0..(NChunks - 1) : c' = j
Emit == c = 99999 \/ \A i \in 0..(PerChunk - 1) : LET k == Offset + c * PerChunk + i  p == ProgAt(k) IN PrintT(<<"PROG", ToJson([k |-> k, prog |-> p, res |-> Outcome(p)])>>)
=============================================================================
