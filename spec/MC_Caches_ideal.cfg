CONSTANTS Texts = {"t1", "t2", "t3"} Opts = {"o1", "o2", "o3"} Capacity = 2 MaxHist = 4
DEV = {}
SPECIFICATION Spec
INVARIANTS Transparent Bounded Emit
CHECK_DEADLOCK FALSE
