\* C20 replay generation by simulation: histories of 12 operations, two sessions, all kinds
CONSTANTS
  Sessions = {1, 2}
  MaxOps = 12
  Kinds = {"a", "pad", "hash", "num", "empty"}
  WithWrite = TRUE
  Emit = TRUE
SPECIFICATION Spec
INVARIANTS EmitInv TsAttached ReloadEq
CHECK_DEADLOCK FALSE
