CONSTANTS Fam = "c05" NP = 2 VL = 0 Stride = 1 Phase = 0
INIT Init
NEXT Next
INVARIANT Emit
CHECK_DEADLOCK FALSE
