"""Syntax-only renderer: flat AST (see spec/InterpGen.tla) -> shell text. Knows no semantics."""

PRELUDE = r'''M() { echo "m$1:$?"%(R)s; return $2; }
T() { local s=$?; echo "t$1:$s"%(R)s; return $s; }
S() { return $1; }; UA=(x y); declare -A UM=([k]=v)
Q() { local s=$? c; eval "c=\$(( \${q$1:-0} + 1 )); q$1=\$c"; echo "q$1.$c:$s"%(R)s; if [ "$c" -le "$2" ]; then return $3; else return $(( 1 - $3 )); fi; }
K() { local s=$? c; eval "c=\$(( \${k$1:-0} + 1 )); k$1=\$c"; echo "k$1.$c:$s"%(R)s; [ "$c" -eq 1 ]; }
'''


def sq(s):
    return "'" + s.replace("'", "'\\''") + "'"


class Renderer:
    def __init__(self, P, use9=None):
        self.P = P  # list of nodes, 1-based indices in fields
        self.use9 = use9 if use9 is not None else any(n["t"] in ("cs", "pipe") for n in P)
        self.in_cs = 0
        self.in_quote = 0
        self.eval_as_source = False  # write an eval node as a sourced text (`. /dev/stdin <<'S<i>'`): same model, the other way of running text in the current shell
        self.decorate = None        # random.Random: vary the separators between list items (C15: blank lines, comments, continuations)

    def nd(self, i):
        return self.P[i - 1]

    def prelude(self):
        pre = PRELUDE % {"R": " >&9" if self.use9 else ""}
        if self.use9:
            pre = "exec 9>&1\n" + pre
            pre = pre.replace('xm_placeholder', '')
        return pre

    def xm(self, i, st):
        return "xm %d %d%s" % (i, st, " >&9" if self.use9 else "")

    WRAP = {"andor": ("seq", "fn", "kc"),                       # operand of && / || (`!` and pipelines bind tighter)
            "andor_right": ("seq", "and", "or", "fn", "kc"),     # right operand: && || are left-associative
            "not": ("seq", "and", "or", "not", "fn", "kc"),      # after `!`
            "stage": ("seq", "and", "or", "not", "fn", "kc", "pipe", "eval")}   # pipeline stage

    def cmd(self, i, ctx="stage"):
        """render node i as a single command usable in the syntactic context ctx; braces only where the
        grammar needs them (they are transparent, but they must not hide `! a || b` style adjacency)"""
        n = self.nd(i)
        if n["t"] in self.WRAP[ctx]:
            return "{\n" + self.r(i) + "\n}"
        return self.r(i)

    def r(self, i):
        n = self.nd(i)
        t = n["t"]
        if t == "M":
            return "M %d %d" % (i, n["m"])
        if t == "X":
            return self.xm(i, n["m"])
        if t == "T":
            return "T %d" % i
        if t == "S":
            return "S %d" % n["m"]
        if t == "L":
            return "echo \"l%d:$LINENO\"%s" % (i, " >&9" if self.use9 else "")
        if t == "brk":
            return "break" if n["n"] == 1 and i % 2 == 0 else "break %d" % n["n"]
        if t == "cont":
            return "continue" if n["n"] == 1 and i % 2 == 0 else "continue %d" % n["n"]
        if t == "kc":
            return "K %d && continue %d" % (i, n["n"])
        if t == "ret":
            return "return %d" % n["n"]
        if t == "exit":
            return "exit %d" % n["n"]
        if t == "execx":
            return "exec " + self.xm(i, n["n"])
        if t == "seto":
            on = n["m"] == 1
            return {1: "set -e" if on else "set +e", 2: "set -u" if on else "set +u",
                    3: "set -o pipefail" if on else "set +o pipefail",
                    4: "shopt -s inherit_errexit" if on else "shopt -u inherit_errexit",
                    5: "set -E" if on else "set +E"}[n["n"]]
        # fault leaves (C18): each fails part-way in a different layer
        if t == "f_in":
            return "cat < /nonexistent_dir/in%d" % i
        if t == "f_out":
            return "echo x > /nonexistent_dir/out%d" % i
        if t == "f_cmd":
            return "nosuchcmd_zz%d" % i
        if t == "f_sub":
            return "echo ${x%d!}" % i
        if t == "f_ro":
            return "RO=%d" % i
        if t == "f_tmp":
            return "V%d=1 FF %d" % (i, i)
        if t == "f_tmpro":
            return "RO=%d M %d 0" % (i, i)
        if t == "f_redirfn":
            return "FR %d" % i
        if t == "us":
            # an unset-parameter expansion in one of its forms: a variable that does not exist, an element an existing array does not hold,
            # a key an existing associative array does not hold, an element of a variable that does not exist
            return [": $nope%d", ": ${UA[1%d]}", ": ${UM[z%d]}", ": ${nope%d[0]}"][i % 4] % i
        if t == "fe":
            return ": ${nope%d:?}" % i
        if t in ("trapx", "trape"):
            self.in_quote += 1
            body = self.r(n["a"])
            self.in_quote -= 1
            return "trap %s %s" % (sq(body), "EXIT" if t == "trapx" else "ERR")
        if t == "trapr":
            return "trap - EXIT" if n["n"] == 0 else "trap - ERR"
        if t == "seq":
            sep = "\n"
            if self.decorate is not None and not self.in_quote:
                # a leaf command may be continued onto an empty line; blank and comment lines may follow any command
                leaf = self.nd(n["a"])["t"] in ("M", "X", "T", "L", "S")
                sep = self.decorate.choice(["\n", "\n", "\n\n", "\n# comment\n", "\n  \n"] + ([" \\\n\n", " \\\n  \n"] if leaf else []))
            return self.r(n["a"]) + sep + self.r(n["b"])
        if t in ("and", "or"):
            op = " && " if t == "and" else " || "
            return self.cmd(n["a"], "andor") + op + self.cmd(n["b"], "andor_right")
        if t == "not":
            return "! " + self.cmd(n["a"], "not")
        if t == "grp":
            return "{\n" + self.r(n["a"]) + "\n}"
        if t == "sub":
            return "(\n" + self.r(n["a"]) + "\n)"
        if t == "if":
            s = "if " + self.r(n["c"]) + "\nthen\n" + self.r(n["a"])
            b = n["b"]
            while b:
                nb = self.nd(b)
                if nb["t"] == "if" and nb["m"] == 1:
                    s += "\nelif " + self.r(nb["c"]) + "\nthen\n" + self.r(nb["a"])
                    b = nb["b"]
                else:
                    s += "\nelse\n" + self.r(b)
                    b = 0
            return s + "\nfi"
        if t == "while":
            kw = "while " if n["m"] == 0 else "until "
            pre = (self.r(n["c"]) + "\n") if n["c"] else ""
            return kw + pre + "Q %d %d %d" % (i, n["n"], n["m"]) + "\ndo\n" + self.r(n["a"]) + "\ndone"
        if t == "for":
            words = " ".join("w%d" % j for j in range(1, n["n"] + 1))
            return "for v%d in %s\ndo\n%s\ndone" % (i, words, self.r(n["a"]))
        if t == "afor":
            return "for ((i%d=0; i%d<%d; i%d++))\ndo\n%s\ndone" % (i, i, n["n"], i, self.r(n["a"]))
        if t == "case":
            s = "case w in"
            for j, fld in enumerate(("a", "b", "c")):
                if n[fld]:
                    pat = "w" if (n["n"] >> j) & 1 else "z"
                    if j == 2 and pat == "w":
                        pat = "*"
                    term = [";;", ";&", ";;&"][(n["m"] // (3 ** j)) % 3]
                    # inside $( ) the pattern is written `(pat)`: brush's command-substitution scanner does not
                    # accept the unbalanced `pat)` form there (observed defect outside the listed properties, DESIGN.md 5)
                    s += "\n%s%s)\n%s\n%s" % ("(" if self.in_cs else "", pat, self.r(n[fld]), term)
            return s + "\nesac"
        if t == "fn":
            return "f%d() {\n%s\n}\nf%d" % (i, self.r(n["a"]), i)
        if t == "eval" and self.eval_as_source and self.in_quote == 0:
            # braces keep the here-document's lines together whatever follows the command on its line
            return "{\n. /dev/stdin <<'S%d'\n%s\nS%d\n}" % (i, self.r(n["a"]), i)
        if t == "eval" and self.eval_as_source and self.in_quote > 0 and "\n" not in self.r(n["a"]):
            # inside a quoted text (a trap handler): a one-line body is sourced from a here-string
            self.in_quote += 1
            body = self.r(n["a"])
            self.in_quote -= 1
            return ". /dev/stdin <<< " + sq(body)
        if t == "eval":
            self.in_quote += 1
            body = self.r(n["a"])
            self.in_quote -= 1
            return "eval " + sq(body)
        if t == "cs":
            self.in_cs += 1
            body = self.r(n["a"])
            self.in_cs -= 1
            return "V%d=$(\n%s\n)" % (i, body)
        if t == "pipe":
            # a stage that is directly `eval ...` is wrapped in braces: bash 5.2 turns an errexit exit taken
            # inside such a stage into status 1 (an accident of its eval/fork path, not a rule to model)
            a = self.cmd(n["a"], "stage") if n["a"] else "S %d" % n["n"]
            b = self.cmd(n["b"], "stage") if n["b"] else "S %d" % n["m"]
            return a + " | " + b
        raise ValueError("unknown node " + t)

    def script(self, root):
        return self.prelude() + self.r(root) + "\n"


def marker(e):
    """model `out` entry -> the text line the prelude prints"""
    t = e[0]
    if t == "m":
        return "m%d:%d" % (e[1], e[2])
    if t == "t":
        return "t%d:%d" % (e[1], e[2])
    if t == "x":
        return "x%d" % e[1]
    if t == "q":
        return "q%d.%d:%d" % (e[1], e[2], e[3])
    if t == "k":
        return "k%d.%d:%d" % (e[1], e[2], e[3])
    if t == "l":
        return "l%d:" % e[1]          # the line number is filled in from the rendered script (interp_check.line_map)
    raise ValueError(e)
