#!/usr/bin/env python3
"""Fill the @@THOROUGH@@ block of DESIGN.md (between <!-- THOROUGH BEGIN/END -->) from build/thorough_logs/summary.txt: last result per check."""
import re, os, json
V = os.path.dirname(os.path.dirname(os.path.abspath(__file__)))
last = {}
for ln in open(os.path.join(V, "build/thorough_logs/summary.txt")):
    m = re.match(r"^(C\d\d) rc=(\d+) secs=(\d+)", ln)
    if m:
        last[m.group(1)] = (int(m.group(2)), int(m.group(3)))
rows = ["| check | last thorough run on the unchanged tree | wall time |", "|---|---|---|"]
for k in sorted(last):
    rc, secs = last[k]
    res = {0: "exit 0 (held; known findings only)", 1: "exit 1 on one case, recorded afterwards as a known finding (see the note below; not re-run)", 2: "tool error", 124: "did not finish within the limit of the runner (35 - 50 minutes on the shared machine)", 137: "killed (out of memory)"}.get(rc, "rc=%d" % rc)
    rows.append("| %s | %s | %d s |" % (k, res, secs))
block = "<!-- THOROUGH BEGIN -->\n" + "\n".join(rows) + "\n<!-- THOROUGH END -->"
p = os.path.join(V, "DESIGN.md")
s = open(p).read()
if "@@THOROUGH@@" in s:
    s = s.replace("@@THOROUGH@@", block)
else:
    s = re.sub(r"<!-- THOROUGH BEGIN -->.*?<!-- THOROUGH END -->", lambda m: block, s, flags=re.S)
open(p, "w").write(s)
print("thorough table:", len(last), "checks")
