----------------------------- MODULE Trace_Jobs -----------------------------
(* Trace validation for C17: the events recorded by the hooked shell (brush-core/src/verif.rs,
   jobs.rs, interp.rs) for ONE job manager, in sequence-number order, must be a behaviour of Jobs.tla.
   The driver renumbers task tokens 1..n in order of first appearance, inserts a `spawn` record before
   the first record that mentions a token (the spawn certainly precedes both the task's begin and the
   registration), and concatenates executions with `reset` records.
   Every invariant of Jobs is evaluated after every event; `job_add` must carry the id the model computes. *)
EXTENDS Jobs, Json, IOUtils

Rec == ndJsonDeserialize(IOEnv.TRACE)
VARIABLE l
tvars == <<vars, l>>

IsEv(e) == l <= Len(Rec) /\ Rec[l].ev = e /\ l' = l + 1
T == Rec[l].t

TrSpawn  == IsEv("spawn") /\ Spawn /\ nl' = T
TrAdd    == IsEv("job_add") /\ pend = T /\ Register /\ jobs'[Len(jobs')].id = Rec[l].id
TrBegin  == IsEv("task_begin") /\ TaskBegin(T)
TrEnd    == IsEv("task_end") /\ TaskEnd(T)
TrWab    == IsEv("wait_all_begin") /\ WaitAllBegin
TrWaited == IsEv("job_waited") /\ (JobWaited(T) \/ WaitOne(T))
TrWae    == IsEv("wait_all_end") /\ WaitAllEnd
\* removal: by the completion poll, or the echo of the sweep already performed at wait_all_end
TrRemove == IsEv("job_remove") /\ IF \E i \in 1..Len(jobs) : jobs[i].tok = T THEN Poll(T)
                                  ELSE (T \in waited /\ UNCHANGED vars)
TrReset  == IsEv("reset") /\ jobs' = <<>> /\ task' = [t \in Toks |-> "none"] /\ waiting' = NotWaiting
                          /\ waited' = {} /\ nl' = 0 /\ pend' = 0

TraceInit == Init /\ l = 1
TraceNext == TrSpawn \/ TrAdd \/ TrBegin \/ TrEnd \/ TrWab \/ TrWaited \/ TrWae \/ TrRemove \/ TrReset
TraceSpec == TraceInit /\ [][TraceNext]_tvars

Accepted == TLCGet("stats").diameter - 1 = Len(Rec)
Report == Accepted \/ Print(<<"REJECTED_AT", TLCGet("stats").diameter, IF TLCGet("stats").diameter <= Len(Rec) THEN Rec[TLCGet("stats").diameter] ELSE <<>>>>, FALSE)
=============================================================================
