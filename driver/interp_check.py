"""Shared engine for the properties decided with spec/Interp.tla (C02, C03, C15a, C16, C18).

  InterpGen (TLC)  ->  programs  ->  Interp (TLC, ideal / as-built)  ->  predictions
                                  ->  renderer -> bash (audit of the model) + brush (verdict)
"""
import json, os, random, hashlib, collections
from .common import *
from .render import Renderer, marker


def gen_programs(cfgs, simulate=None, seed=None):
    """Run the generator under each cfg; returns list of node lists (deduplicated) and TLC stats."""
    seen, progs = set(), []
    stats = {"states": 0, "distinct": 0}
    for cfg in cfgs:
        r = run_tlc("MC_InterpGen", cfg, workers=min(8, NCPU), want_lines=("PROG",), simulate=simulate,
                    depth=60 if simulate else None, seed=seed)
        if not r["ok"]:
            raise ToolError("generator failed on %s: %s\n%s" % (cfg, r["violation"], r.get("full", "")[-2000:]))
        stats["states"] += r["states"]
        stats["distinct"] += r["distinct"]
        for p in r["lines"]["PROG"]:
            key = json.dumps(p["P"], sort_keys=True)
            if key not in seen:
                seen.add(key)
                progs.append(p["P"])
    progs.sort(key=lambda P: json.dumps(P, sort_keys=True))    # TLC's emission order depends on worker scheduling
    return progs, stats


def signature(P):
    """program with the statuses of non-focus M leaves abstracted (sampling strata)"""
    return json.dumps([[n["t"], n["a"], n["b"], n["c"], n["n"], ("?" if n["t"] == "M" and not n.get("foc") else n["m"])] for n in P])


def cap(wrapped, n):
    """deterministic sample of at most n cases (by the hash in each case's id), for tiers whose full product does not finish in hours"""
    if len(wrapped) <= n:
        return wrapped
    key = lambda w: hashlib.sha1((str(SEED) + str(w["id"])).encode()).hexdigest()
    return sorted(wrapped, key=key)[:n]


def stratified(progs, per_group, seed):
    groups = collections.OrderedDict()
    for P in progs:
        groups.setdefault(signature(P), []).append(P)
    rnd = random.Random(seed)
    out = []
    for sig, lst in groups.items():
        if len(lst) <= per_group:
            out.extend(lst)
        else:
            out.extend(rnd.sample(lst, per_group))
    return out, len(groups)


def wrap(P, pid, prefix=()):
    """root = seq(prefix..., seq(P, T)): option-setting leaves first, a transparent final probe last.
    prefix: list of leaf dicts (t, n, m) or ready-made sub-programs (list of nodes with root at index 1)"""
    P = [dict(n) for n in P]
    def leaf(t, n=0, m=0):
        P.append({"t": t, "a": 0, "b": 0, "c": 0, "n": n, "m": m, "foc": 0})
        return len(P)
    def seq(a, b):
        P.append({"t": "seq", "a": a, "b": b, "c": 0, "n": 0, "m": 0, "foc": 0})
        return len(P)
    def graft(nodes):
        off = len(P)
        for nd in nodes:
            nd = dict(nd)
            for f in ("a", "b", "c"):
                if nd[f]:
                    nd[f] += off
            nd.setdefault("foc", 0)
            P.append(nd)
        return off + 1
    root = seq(1, leaf("T"))
    for item in reversed(list(prefix)):
        root = seq(graft(item) if isinstance(item, list) else leaf(*item), root)
    return {"id": pid, "P": P, "root": root}


def prog_id(P, prefix=()):
    return "I" + hashlib.sha1(json.dumps([P, list(prefix)], sort_keys=True).encode()).hexdigest()[:14]


def predict(progs, dev=(), check_props=True, workers=None, live=False):
    """Run Interp.tla on wrapped programs. Returns ({id: prediction}, tlc stats)."""
    d = tempfile.mkdtemp(prefix="interp-", dir=scratch())
    pf = os.path.join(d, "progs.ndjson")
    with open(pf, "w") as f:
        for p in progs:
            f.write(json.dumps(p) + "\n")
    cfg = os.path.join(d, "MC.cfg")
    with open(cfg, "w") as f:
        f.write("CONSTANTS\n  DEV = {%s}\nSPECIFICATION Spec\n" % ", ".join('"%s"' % x for x in sorted(dev)))
        f.write("INVARIANTS LevelsOK ExitOnce Bounded Emit%s\n" % (" DoneClean BoundaryOK SuppressAgrees" if not dev else ""))
        if live:
            f.write("PROPERTY Terminates\n")
        f.write("CHECK_DEADLOCK TRUE\n")
    r = run_tlc("Interp", cfg, workers=workers or min(8, NCPU), env={"PROGS": pf}, timeout=3000, coverage=False)
    shutil.rmtree(d, ignore_errors=True)
    if not r["ok"]:
        raise ToolError("Interp model run failed (dev=%s): %s\n%s" % (sorted(dev), r["violation"], r.get("full", "")[-3000:]))
    preds = {c["id"]: c for c in r["lines"]["CASE"]}
    if len(preds) != len(progs):
        raise ToolError("Interp emitted %d predictions for %d programs" % (len(preds), len(progs)))
    return preds, r


def observe(shell, script, front="c", timeout=10):
    r = run_script(shell, script, front=front, timeout=timeout)
    return {"lines": r["out"].splitlines()[:300], "rc": r["rc"], "timeout": r["timeout"], "panic": r["panic"],
            "signal": r["signal"], "err": r["err"][-400:]}


def _norm_fatal(line):
    """identify statuses 1 and 127 (programs that take a fatal-expansion exit; see Interp.tla `fe`)"""
    import re
    return re.sub(r":(1|127)$", ":F", line) if isinstance(line, str) else ("F" if line in (1, 127) else line)


def matches(obs, pred):
    if obs["timeout"]:
        return False
    exp = [marker(e) for e in pred["out"]]
    if pred["gh"].get("fatal", 0) > 0:
        return [_norm_fatal(l) for l in obs["lines"]] == [_norm_fatal(l) for l in exp] and _norm_fatal(obs["rc"]) == _norm_fatal(pred["exit"])
    return obs["lines"] == exp and obs["rc"] == pred["exit"]


def run_cases(progs, preds, fronts=("c",), shells=("bash", "brush")):
    """returns list of dict(id, script, obs={(shell,front): observation})"""
    def one(p):
        rr = Renderer(p["P"])
        rr.eval_as_source = bool(p.get("src"))
        script = rr.script(p["root"])
        obs = {}
        for sh in shells:
            for fr in fronts:
                obs[sh + "/" + fr] = observe(sh, script, fr)
        return {"id": p["id"], "script": script, "obs": obs}
    return pmap(one, progs)


def validate_prelude():
    """The scripted-leaf prelude must behave identically in bash and brush (else tool error)."""
    from .render import PRELUDE
    body = PRELUDE % {"R": ""} + r'''
(exit 7); M 1 3; T 2; S 4; Q 5 1 0; Q 5 1 0; Q 6 1 1; Q 6 1 1; K 7; K 7; xm 8 9; echo "j:$?"
'''
    a = run_script("bash", body)
    b = run_script("brush", body)
    want = ["m1:7", "t2:3", "q5.1:4", "q5.2:0", "q6.1:1", "q6.2:1", "k7.1:0", "k7.2:0", "x8", "j:9"]
    if a["out"].splitlines() != want:
        raise ToolError("prelude misbehaves in bash: %r" % a["out"])
    if b["out"].splitlines() != want:
        raise ToolError("prelude misbehaves in brush (cannot observe through it): %r %r" % (b["out"], b["err"][-300:]))


def classify(v, progs, preds, results, known_devs, what_of, fronts=("c",)):
    """Fill Verdict v. known_devs: list of DEV names that KNOWN_FINDINGS lists as known for this property.
    Returns counters."""
    by_id = {p["id"]: p for p in progs}
    cnt = collections.Counter()
    suspects = []
    for res in results:
        pred = preds[res["id"]]
        bash_ok = all(matches(res["obs"]["bash/" + fr], pred) for fr in fronts)
        brush_ok = all(matches(res["obs"]["brush/" + fr], pred) for fr in fronts)
        cnt["cases"] += 1
        if brush_ok:
            cnt["pass"] += 1
            if not bash_ok:
                v.audit_miss({"script": res["script"], "model": pred, "bash": res["obs"]["bash/" + fronts[0]]})
            continue
        if not bash_ok:
            # the model disagrees with bash: a defect of the model, not judged
            v.audit_miss({"script": res["script"], "model": [marker(e) for e in pred["out"]] + [pred["exit"]],
                          "bash": res["obs"]["bash/" + fronts[0]]})
            cnt["audit_excluded"] += 1
            continue
        suspects.append(res)
    # as-built predictions for the suspects only
    if suspects and known_devs:
        sp = [by_id[s["id"]] for s in suspects]
        allp, _ = predict(sp, dev=known_devs, check_props=False)
        # leave-one-out: a deviation is responsible for a case iff switching it off changes the as-built prediction
        without = {d: predict(sp, dev=[x for x in known_devs if x != d], check_props=False)[0] for d in known_devs}
    for res in suspects:
        pred = preds[res["id"]]
        explained = False
        if known_devs:
            ab = allp[res["id"]]
            if all(matches(res["obs"]["brush/" + fr], ab) for fr in fronts):
                resp = [d for d in known_devs if (without[d][res["id"]]["out"], without[d][res["id"]]["exit"]) != (ab["out"], ab["exit"])]
                if resp:
                    explained = True
                    for d in resp:
                        f = v.known_dev(d)
                        v.known(f["id"], what_of(f))
                    cnt["known"] += 1
        if not explained:
            cnt["violations"] += 1
            bad = [fr for fr in fronts if not matches(res["obs"]["brush/" + fr], pred)]
            v.violation(res["id"], {"script": res["script"], "front": bad[0],
                                    "expected": {"lines": [marker(e) for e in pred["out"]], "exit": pred["exit"]},
                                    "brush": res["obs"]["brush/" + bad[0]], "bash": res["obs"]["bash/" + bad[0]],
                                    "program": by_id[res["id"]]})
    return cnt
