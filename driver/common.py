"""Shared plumbing for the /verif checks: paths, builds, TLC runs, shell runs, verdicts, evidence.

Exit code convention (DESIGN.md 3.3): 0 held / 1 VIOLATION line printed / 2 tool error.
"""
import json, os, re, shutil, subprocess, sys, tempfile, time, hashlib, signal
from concurrent.futures import ThreadPoolExecutor

VERIF = os.path.dirname(os.path.dirname(os.path.abspath(__file__)))
REPO = os.environ.get("VERIF_REPO", "/repo")
BUILD = os.path.join(VERIF, "build")
SPEC = os.path.join(VERIF, "spec")
HARNESS = os.path.join(VERIF, "harness")
EVIDENCE = os.path.join(VERIF, "evidence")
REPLAY = os.path.join(VERIF, "replay")
GUARD = "brush_verif"
BASH = "/usr/bin/bash"
NCPU = os.cpu_count() or 4
SEED = int(os.environ.get("VERIF_SEED", "1") or "1")


class ToolError(Exception):
    pass


def log(*a):
    print(*a, file=sys.stderr, flush=True)


def scratch_root():
    base = "/dev/shm" if os.path.isdir("/dev/shm") and os.access("/dev/shm", os.W_OK) else os.path.join(BUILD, "scratch")
    d = os.path.join(base, "verif-%d" % os.getpid())
    os.makedirs(d, exist_ok=True)
    return d


_SCRATCH = None


def scratch():
    global _SCRATCH
    if _SCRATCH is None:
        _SCRATCH = scratch_root()
        import atexit
        atexit.register(lambda: shutil.rmtree(_SCRATCH, ignore_errors=True))
    return _SCRATCH


# ----------------------------------------------------------------------------- builds
def cargo_env():
    env = dict(os.environ)
    env["CARGO_NET_OFFLINE"] = "true"
    env.pop("RUSTFLAGS", None)
    return env


def build_harness(bins=None):
    """Build the harness workspace (path deps on /repo, --cfg brush_verif via .cargo/config.toml).
    Also builds the hooked brush binary (the harness has brush-shell as a dependency target)."""
    t0 = time.time()
    lock = os.path.join(HARNESS, "Cargo.lock")
    if not os.path.exists(lock):
        shutil.copy(os.path.join(REPO, "Cargo.lock"), lock)
    cmd = ["cargo", "build", "--offline", "--quiet"]
    r = subprocess.run(cmd, cwd=HARNESS, env=cargo_env(), stdout=subprocess.PIPE, stderr=subprocess.STDOUT, text=True)
    if r.returncode != 0:
        log(r.stdout[-4000:])
        raise ToolError("harness build failed")
    log("[build] harness ok in %.1fs" % (time.time() - t0))
    return os.path.join(BUILD, "target", "debug")


def bin_path(name):
    return os.path.join(BUILD, "target", "debug", name)


def brush_bin():
    return bin_path("brush")


# ----------------------------------------------------------------------------- TLC
TLC_JAR = "/opt/veriftools/tla/tla2tools.jar"
COMMUNITY = "/opt/veriftools/tla/CommunityModules-deps.jar"


def _tlc_classpath():
    d = os.path.dirname(TLC_JAR)
    jars = [os.path.join(d, f) for f in sorted(os.listdir(d)) if f.endswith(".jar")]
    return ":".join(jars)


def run_tlc(module, cfg=None, workers=8, env=None, simulate=None, depth=None, seed=None, timeout=900,
            xmx="8g", coverage=False, deque=False, extra=None, want_lines=("CASE",)):
    """Run TLC on spec/<module>.tla with spec/<cfg>. Returns dict(lines={tag:[json...]}, states, distinct,
    out=<tail of stdout>, ok=bool, violation=<text or None>, coverage={action:count})."""
    cfg = cfg or (module + ".cfg")
    meta = tempfile.mkdtemp(prefix="tlc-", dir=scratch())
    jopts = ["-Xss1g", "-Xmx" + xmx, "-XX:+UseParallelGC"]
    if deque:
        jopts.append("-Dtlc2.tool.queue.IStateQueue=StateDeque")
    cmd = ["java"] + jopts + ["-cp", _tlc_classpath(), "tlc2.TLC", "-workers", str(workers), "-metadir", meta,
                               "-cleanup", "-noGenerateSpecTE", "-config", cfg]
    if coverage:
        cmd += ["-coverage", "1"]
    if simulate:
        cmd += ["-simulate", "num=%d" % simulate]
        if depth:
            cmd += ["-depth", str(depth)]
    if seed is not None:
        cmd += ["-seed", str(seed)]
    if extra:
        cmd += extra
    cmd.append(module + ".tla")
    e = dict(os.environ)
    e.pop("JAVA_TOOL_OPTIONS", None)
    if env:
        e.update({k: str(v) for k, v in env.items()})
    t0 = time.time()
    try:
        p = subprocess.run(cmd, cwd=SPEC, env=e, stdout=subprocess.PIPE, stderr=subprocess.STDOUT, timeout=timeout)
    except subprocess.TimeoutExpired:
        shutil.rmtree(meta, ignore_errors=True)
        raise ToolError("TLC timeout on %s/%s" % (module, cfg))
    shutil.rmtree(meta, ignore_errors=True)
    text = p.stdout.decode("utf-8", "replace")
    res = {"lines": {t: [] for t in want_lines}, "states": 0, "distinct": 0, "ok": False, "violation": None,
           "wall": time.time() - t0, "coverage": {}, "rc": p.returncode}
    other = []
    pat = re.compile(r'^<<"([A-Z_]+)", (".*")>>$')
    for ln in text.splitlines():
        m = pat.match(ln)
        if m and m.group(1) in res["lines"]:
            try:
                res["lines"][m.group(1)].append(json.loads(json.loads(m.group(2))))
            except Exception as ex:  # malformed emission is a tool error
                raise ToolError("bad emitted line: %r (%s)" % (ln[:200], ex))
            continue
        other.append(ln)
        if ln.startswith('<<"BAD_') or ln.startswith('<<"REJECTED_AT"') or ln.startswith('<<"INSANE"'):
            res.setdefault("notes", []).append(ln)
        m = re.match(r"^(\d+) states generated, (\d+) distinct states found", ln)
        if m:
            res["states"], res["distinct"] = int(m.group(1)), int(m.group(2))
        m = re.match(r"^<(\w+) line \d+, col \d+ to line \d+, col \d+ of module (\w+)>: (\d+):(\d+)", ln)
        if m:
            res["coverage"][m.group(1)] = res["coverage"].get(m.group(1), 0) + int(m.group(4))
    res["out"] = "\n".join(other[-60:])
    done = "Model checking completed. No error has been found." in text or (simulate and "Finished in" in text and "Error:" not in text)
    res["ok"] = bool(done)
    if not done:
        m = re.search(r"Error: (.*)", text)
        res["violation"] = m.group(1) if m else "TLC did not complete"
        res["full"] = text[-6000:]
    return res


def sany(module):
    p = subprocess.run(["java", "-cp", _tlc_classpath(), "tla2sany.SANY", module + ".tla"], cwd=SPEC,
                       stdout=subprocess.PIPE, stderr=subprocess.STDOUT, text=True)
    return p.returncode == 0 and "Semantic errors" not in p.stdout and "Parse Error" not in p.stdout, p.stdout


# ----------------------------------------------------------------------------- running shells
BASE_ENV = {"LC_ALL": "C.UTF-8", "TZ": "UTC", "TERM": "dumb"}


def shell_cmd(shell):
    if shell == "brush":
        return [brush_bin(), "--norc", "--noprofile", "--no-config"]
    if shell == "bash":
        return [BASH, "--norc", "--noprofile"]
    raise ValueError(shell)


def limit_memory():
    """preexec_fn: cap the address space of a process under test (a runaway allocation must end as a crash of that
    process, not as memory exhaustion of the machine)"""
    import resource
    resource.setrlimit(resource.RLIMIT_AS, (8 << 30, 8 << 30))


def run_proc(argv, cwd, env, stdin_data=None, timeout=20):
    """Run one process in its own process group; returns dict(out, err, rc, signal, timeout, wall_ms)."""
    t0 = time.time()
    try:
        p = subprocess.Popen(argv, cwd=cwd, env=env, stdin=subprocess.PIPE if stdin_data is not None else subprocess.DEVNULL,
                             stdout=subprocess.PIPE, stderr=subprocess.PIPE, start_new_session=True, preexec_fn=limit_memory)
    except OSError as ex:
        raise ToolError("cannot spawn %r: %s" % (argv[0], ex))
    to = False
    try:
        out, err = p.communicate(stdin_data, timeout=timeout)
    except subprocess.TimeoutExpired:
        to = True
        try:
            os.killpg(p.pid, signal.SIGKILL)
        except ProcessLookupError:
            pass
        out, err = p.communicate()
    else:
        try:
            os.killpg(p.pid, signal.SIGKILL)  # stragglers (background children)
        except (ProcessLookupError, PermissionError):
            pass
    rc = p.returncode
    sig = -rc if rc is not None and rc < 0 else None
    return {"out": out.decode("utf-8", "replace"), "err": err.decode("utf-8", "replace"), "rc": rc, "signal": sig,
            "timeout": to, "wall_ms": int((time.time() - t0) * 1000)}


def run_script(shell, script, front="c", extra_env=None, stdin_data=None, timeout=20, files=None, args=None, keep=False, _retried=False):
    """Run `script` through `shell` with delivery mode `front` in a fresh scratch dir.
    front: c | file | stdin | source | eval"""
    d = tempfile.mkdtemp(prefix="run-", dir=scratch())
    env = dict(BASE_ENV)
    env["HOME"] = d
    env["HISTFILE"] = os.path.join(d, ".hist")
    env["PATH"] = bin_path("") + ":/usr/bin:/bin"
    env["TMPDIR"] = d
    if extra_env:
        env.update(extra_env)
    for name, content in (files or {}).items():
        pth = os.path.join(d, name)
        os.makedirs(os.path.dirname(pth), exist_ok=True)
        with open(pth, "w") as f:
            f.write(content)
    argv = shell_cmd(shell)
    sd = stdin_data
    if front == "c":
        argv = argv + ["-c", script] + (args or [])
    elif front == "file":
        with open(os.path.join(d, "s.sh"), "w") as f:
            f.write(script)
        argv = argv + ["s.sh"] + (args or [])
    elif front == "stdin":
        argv = argv + ["-s"] + (args or [])
        sd = script.encode() if stdin_data is None else stdin_data
    elif front == "source":
        with open(os.path.join(d, "s.sh"), "w") as f:
            f.write(script)
        argv = argv + ["-c", ". ./s.sh"]
    elif front == "eval":
        env["VERIF_SRC"] = script
        argv = argv + ["-c", 'eval "$VERIF_SRC"']
    else:
        raise ValueError(front)
    r = run_proc(argv, d, env, sd, timeout)
    if r["timeout"] and not _retried and not os.environ.get("VERIF_NO_RETRY"):
        # a loaded machine must not turn into a reported hang: one more attempt with three times the time, in a clean directory
        shutil.rmtree(d, ignore_errors=True)
        return run_script(shell, script, front=front, extra_env=extra_env, stdin_data=stdin_data, timeout=timeout * 3, files=files, args=args, keep=keep, _retried=True)
    r["panic"] = panic_site(r["err"])
    if keep:
        r["dir"] = d
    else:
        shutil.rmtree(d, ignore_errors=True)
    return r


def panic_site(err):
    m = re.search(r"panicked at ([^\n:]+:\d+)", err)
    return m.group(1) if m else None


def crashed(r):
    return bool(r["panic"]) or r["rc"] in (101, 134) or (r["signal"] is not None and r["signal"] not in (signal.SIGPIPE,)) and not r["timeout"]


def pmap(fn, items, threads=None):
    threads = threads or NCPU
    with ThreadPoolExecutor(max_workers=threads) as ex:
        return list(ex.map(fn, items))


# ----------------------------------------------------------------------------- known findings / verdicts
def load_findings(prop):
    with open(os.path.join(VERIF, "KNOWN_FINDINGS.json")) as f:
        allf = json.load(f)["findings"]
    return [x for x in allf if x["property"] == prop]


class Verdict:
    """Collects per-case outcomes for one property run and produces output + evidence."""

    def __init__(self, prop, tier, level):
        self.prop, self.tier, self.level = prop, tier, level
        self.t0 = time.time()
        self.findings = load_findings(prop)
        self.known_hit = {}
        self.violations = []
        self.cov = {}
        self.assumptions = []
        self.samples = []
        self.audit_disagreements = 0
        self.audit_samples = []
        self.tool_errors = []
        shutil.rmtree(os.path.join(REPLAY, prop), ignore_errors=True)   # replay files belong to one run
        os.makedirs(BUILD, exist_ok=True)
        self._audit_log = os.path.join(BUILD, "audit_%s.ndjson" % prop)      # every model/bash disagreement of this run (debugging aid)
        open(self._audit_log, "w").close()

    def known_dev(self, dev):
        """finding entry (status known) for an as-built deviation flag, or None"""
        for f in self.findings:
            if f.get("status") == "known" and dev in f.get("devs", [f.get("dev")]):
                return f
        return None

    def known(self, fid, what):
        if fid not in self.known_hit:
            self.known_hit[fid] = [what, 0]
        self.known_hit[fid][1] += 1

    def violation(self, case_id, payload):
        os.makedirs(os.path.join(REPLAY, self.prop), exist_ok=True)
        h = hashlib.sha1(case_id.encode()).hexdigest()[:12]
        path = os.path.join(REPLAY, self.prop, "%s.json" % h)
        with open(path, "w") as f:
            json.dump({"property": self.prop, "case": case_id, **payload}, f, indent=1, default=str)
        self.violations.append(path)

    def audit_miss(self, sample):
        self.audit_disagreements += 1
        with open(self._audit_log, "a") as f:
            f.write(json.dumps(sample, default=str) + "\n")
        if len(self.audit_samples) < 5:
            self.audit_samples.append(sample)

    def finish(self, coverage, assumptions=None):
        wall = time.time() - self.t0
        cov = dict(coverage)
        cov.setdefault("oracle_disagreements", self.audit_disagreements)
        if self.audit_samples:
            cov["oracle_disagreement_samples"] = self.audit_samples
        cov["known_findings_hit"] = {k: v[1] for k, v in self.known_hit.items()}
        ev = {"property_id": self.prop, "tier": self.tier, "seed": SEED, "level": self.level, "coverage": cov,
              "assumptions": (assumptions or []) + self.assumptions, "wall_s": round(wall, 2),
              "violations": len(self.violations)}
        os.makedirs(EVIDENCE, exist_ok=True)
        with open(os.path.join(EVIDENCE, self.prop + ".json"), "w") as f:
            json.dump(ev, f, indent=1, default=str)
        for fid, (what, n) in sorted(self.known_hit.items()):
            print("KNOWN-FINDING: property=%s %s %s (%d cases)" % (self.prop, fid, what, n))
        seen = 0
        for p in self.violations[:50]:
            print("VIOLATION property=%s replay=%s" % (self.prop, p))
            seen += 1
        if len(self.violations) > 50:
            print("... %d more violations (replay files written)" % (len(self.violations) - 50))
        sys.stdout.flush()
        log("[%s/%s] %.1fs  %s" % (self.prop, self.tier, wall, {k: v for k, v in cov.items() if isinstance(v, (int, bool))}))
        return 1 if self.violations else 0


def bisect_rejected(segments, validate_ok):
    """segments: list; validate_ok(list_of_segments) -> bool. Returns the index of one segment that is rejected on its
    own (binary search: the trace spec treats segments independently), or None."""
    lo, hi = 0, len(segments)
    if validate_ok(segments):
        return None
    while hi - lo > 1:
        mid = (lo + hi) // 2
        if not validate_ok(segments[lo:mid]):
            hi = mid
        else:
            lo = mid
    return lo
